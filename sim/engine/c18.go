package engine

import (
	"fmt"
	"sort"
	"strings"
	"sync"
	"time"

	"apdsim/plan"

	apd "github.com/cockroachdb/apd/v3"
)

// C18 workload: K tasks, one shared Context pool, one shared operand pool,
// private destinations; deterministic schedule; three oracles (race detector,
// solo-baseline equality, raw immutability of everything shared).

const DefaultTraps = uint32(apd.DefaultTraps)

// step budgets of the solo (fault-free) phase
const (
	soloOpCap  = 3_000_000
	soloRunCap = 12_000_000
	// the race build pays some microseconds per yield: the concurrent workload
	// has its own, smaller caps — per operation, and for all tasks of a run
	// together — so that the most expensive run stays far below the driver's
	// no-progress watchdog even on a loaded machine
	c18OpCap  = 1_000_000
	c18RunCap = 4_000_000
)

var c18Ctx3 = []string{"Add", "Sub", "Mul", "Quo", "QuoInteger", "Rem", "Pow", "Cmp"}
var c18Ctx2 = []string{"RounderRound", "Abs", "Neg", "Round", "Sqrt", "Cbrt", "Exp", "Ln", "Log10", "RoundToIntegralValue", "RoundToIntegralExact", "Ceil", "Floor", "Reduce"}
var c18Read1 = []string{"Sign", "Size", "CondInfo", "ShouldAddOne", "String", "Text", "Sprintf", "Int64", "Float64", "Decompose", "MarshalText"}
var c18Read2 = []string{"DCmp", "CmpTotal", "CoeffRead"}
var c18Dec2 = []string{"DSet", "DNeg", "DAbs", "DReduce", "Compose", "NewWithBigInt"}
var c18DecSet = []string{"SetInt64", "SetFinite", "SetFloat64", "DSetString", "UnmarshalText", "Scan", "NullScan"}
var c18ED3 = []string{"EDAdd", "EDSub", "EDMul", "EDQuo", "EDQuoInteger", "EDRem", "EDPow"}
var c18ED2 = []string{"EDAbs", "EDNeg", "EDRound", "EDSqrt", "EDExp", "EDLn", "EDLog10", "EDRoundToIntegralValue", "EDRoundToIntegralExact", "EDCeil", "EDFloor", "EDReduce"}

func pick(r *plan.Rng, l []string) string { return l[r.Intn(len(l))] }

// genStep draws one step. sharedProb/16 is the chance that an operand ref
// names a shared entry. Destinations are always private registers.
func genStep(r *plan.Rng, nctx, nshared, nregs int, sharedProb int, heavyOK bool, edOK bool) plan.Step {
	opnd := func() string {
		if nshared > 0 && r.Chance(sharedProb, 16) {
			return fmt.Sprintf("s%d", r.Intn(nshared))
		}
		return fmt.Sprintf("r%d", r.Intn(nregs))
	}
	st := plan.Step{Ctx: r.Intn(nctx), D: fmt.Sprintf("r%d", r.Intn(nregs))}
	for {
		k := r.Intn(100)
		switch {
		case k < 34:
			st.Op = pick(r, c18Ctx3)
			st.X, st.Y = opnd(), opnd()
		case k < 60:
			st.Op = pick(r, c18Ctx2)
			st.X = opnd()
		case k < 64:
			st.Op = "Quantize"
			st.X = opnd()
			st.N = int64(r.Range(-12, 6))
		case k < 72:
			st.Op = pick(r, c18Read1)
			st.X = opnd()
			st.N = int64(r.Intn(64))
			st.D = ""
		case k < 76:
			st.Op = pick(r, c18Read2)
			st.X, st.Y = opnd(), opnd()
			st.D = ""
		case k < 80:
			st.Op = "Modf"
			st.X = opnd()
			st.D = ""
			// outputs are private, distinct, and not the receiver
			i := r.Intn(nregs)
			f := (i + 1 + r.Intn(nregs-1)) % nregs
			switch r.Intn(4) {
			case 0:
				st.I = fmt.Sprintf("r%d", i)
			case 1:
				st.F = fmt.Sprintf("r%d", f)
			default:
				st.I = fmt.Sprintf("r%d", i)
				st.F = fmt.Sprintf("r%d", f)
			}
			if st.X == st.I || st.X == st.F {
				st.X = fmt.Sprintf("s%d", r.Intn(max(nshared, 1)))
				if nshared == 0 {
					continue
				}
			}
		case k < 85:
			st.Op = pick(r, c18Dec2)
			st.X = opnd()
		case k < 89:
			st.Op = pick(r, c18DecSet)
			st.N = int64(r.U64()>>uint(r.Intn(64))) - int64(r.Intn(1000))
			st.S = GenParseString(r)
		case k < 91:
			st.Op = []string{"CtxSetString", "CtxNewFromString", "PkgNewFromString"}[r.Intn(3)]
			st.S = GenParseString(r)
		case k < 92:
			st.Op = "WithPrecision"
			st.D = ""
			st.N = int64(r.Intn(100))
		default:
			if !edOK {
				continue
			}
			switch r.Intn(10) {
			case 0, 1, 2, 3:
				st.Op = pick(r, c18ED3)
				st.X, st.Y = opnd(), opnd()
			case 4, 5, 6, 7:
				st.Op = pick(r, c18ED2)
				st.X = opnd()
			case 8:
				st.Op = "EDQuantize"
				st.X = opnd()
				st.N = int64(r.Range(-12, 6))
			default:
				st.Op = "EDInt64"
				st.X = opnd()
				st.D = ""
			}
		}
		if def := Ops[st.Op]; def != nil && def.Heavy && !heavyOK {
			st = plan.Step{Ctx: st.Ctx, D: fmt.Sprintf("r%d", r.Intn(nregs))}
			continue
		}
		return st
	}
}

// GenC18 builds the world and programs of one run (no schedule yet).
func GenC18(seed, run uint64, tier, mode string) *plan.Plan {
	r := plan.NewRng(plan.Derive(seed, run, 18))
	p := &plan.Plan{V: 1, Property: "C18", Workload: "c18", Mode: mode, Seed: seed, Run: run, Race: true, Cold: mode == "cold" || mode == "coldsync" || mode == "coldherd"}
	maxPrec := uint32(20)
	switch r.Intn(8) {
	case 0:
		maxPrec = 60
		if r.Chance(1, 3) {
			// occasionally very high precision: internal tables and constants
			// have precision-dependent paths (constWithPrecision, table misses)
			maxPrec = 200
		}
	case 1, 2:
		maxPrec = 34
	case 3:
		maxPrec = 9
	}
	nctx := r.Range(1, 5)
	for i := 0; i < nctx; i++ {
		traps := uint32(0)
		switch r.Intn(4) {
		case 0:
			traps = DefaultTraps
		case 1:
			traps = uint32(r.U64()) & 0xfff
		}
		c := GenCtx(r, traps, maxPrec)
		p.Contexts = append(p.Contexts, c)
	}
	if r.Chance(1, 3) {
		p.Contexts = append(p.Contexts, plan.Ctx{Base: true, Emax: 100000, Emin: -100000, Traps: DefaultTraps})
	}
	wide := r.Chance(1, 6)
	nshared := r.Range(3, 9)
	for i := 0; i < nshared; i++ {
		p.Shared = append(p.Shared, GenDec(r, wide))
	}
	// related operands (same digit count / neighbouring exponent)
	for i := r.Intn(3); i > 0; i-- {
		p.Shared = append(p.Shared, Sibling(r, p.Shared[r.Intn(len(p.Shared))]))
		nshared++
	}
	k := 2 + r.Intn(3)
	if r.Chance(1, 20) {
		k = 8
	}
	maxSteps := 60
	if tier == "thorough" {
		maxSteps = 120
	}
	if mode == "sync" || mode == "coldsync" {
		// focus on synchronised-but-wrong shared state: few contexts at
		// distinct high precisions, few tasks, short programs of operations that
		// reach the package's tables and constants, operands with large
		// exponent gaps; the schedule aims at the yields right after lock
		// sections and atomics (see genSchedule)
		p.Contexts = nil
		precs := []uint32{34, 60, 100, 130, 200, 130, 200}
		nc := r.Range(2, 3)
		for i := 0; i < nc; i++ {
			pc := precs[r.Intn(len(precs))]
			p.Contexts = append(p.Contexts, plan.Ctx{P: pc, Emax: 100000, Emin: -100000, Traps: 0, Round: RounderNames[r.Intn(len(RounderNames))]})
		}
		p.Shared = nil
		nshared = r.Range(3, 6)
		for i := 0; i < nshared; i++ {
			d := GenDec(r, true)
			if r.Chance(2, 3) {
				// exponents far apart: caches of large powers of ten and other
				// rarely used shared state sit behind gaps of thousands of digits
				e := []int32{0, int32(r.Range(-40, 40)), int32(r.Range(-2000, 2000)), int32(r.Range(4000, 9000)), -int32(r.Range(4000, 9000)), int32(r.Range(-9000, 9000))}[r.Intn(6)]
				d = plan.Dec{Coeff: randDigits(r, 1+r.Intn(30)), Exp: e, Neg: r.Chance(1, 4)}
			}
			p.Shared = append(p.Shared, d)
		}
		k = r.Range(2, 3)
		heavy := []string{"Ln", "Log10", "Pow", "Exp", "Quo", "Add", "Sub", "Cbrt", "Sqrt", "Mul", "Rem", "QuoInteger", "Round", "Quantize", "String", "DCmp"}
		for t := 0; t < k; t++ {
			var tk plan.Task
			nregs := 3
			for i := 0; i < nregs; i++ {
				tk.Regs = append(tk.Regs, GenDec(r, false))
			}
			n := r.Range(2, 8)
			for i := 0; i < n; i++ {
				st := plan.Step{Op: heavy[r.Intn(len(heavy))], Ctx: r.Intn(len(p.Contexts)), D: fmt.Sprintf("r%d", r.Intn(nregs))}
				st.X = fmt.Sprintf("s%d", r.Intn(nshared))
				st.Y = fmt.Sprintf("s%d", r.Intn(nshared))
				if r.Chance(1, 4) {
					st.X = fmt.Sprintf("r%d", r.Intn(nregs))
				}
				def := Ops[st.Op]
				switch def.Kind {
				case KCtx2, KRead1:
					st.Y = ""
				case KCtxQ:
					st.Y = ""
					st.N = int64(r.Range(-12, 6))
				}
				if def.Kind == KRead1 || def.Kind == KRead2 {
					st.D = ""
				}
				tk.Steps = append(tk.Steps, st)
			}
			p.Tasks = append(p.Tasks, tk)
		}
		if r.Chance(1, 3) {
			// a herd: three or four callers run the same program on the same
			// shared operands at the same time (every lookup, memo and
			// single-flight of the tree is hit by all of them at once)
			herd(p, r.Range(3, 4))
		}
		return p
	}
	heavyShare := r.Intn(4) // 0: no heavy ops in this run
	for t := 0; t < k; t++ {
		var tk plan.Task
		nregs := r.Range(3, 6)
		for i := 0; i < nregs; i++ {
			tk.Regs = append(tk.Regs, GenDec(r, false))
		}
		n := r.Range(6, maxSteps)
		if k == 8 {
			n = r.Range(4, 20)
		}
		for i := 0; i < n; i++ {
			tk.Steps = append(tk.Steps, genStep(r, len(p.Contexts), nshared, nregs, 12, heavyShare > 0, true))
		}
		p.Tasks = append(p.Tasks, tk)
	}
	if mode == "coldherd" {
		firstUse(p, r, nshared)
		return p
	}
	if k < 8 && r.Chance(1, 12) {
		herd(p, k)
	}
	return p
}

// firstUse turns p into a first-use run (mode "coldherd", always executed in
// a fresh process with the concurrent phase first): half of the shared
// operands get an everyday shape (a few digits, exponent -3 … 18), the first
// task's program is followed by one call of every read-only Decimal method and
// of every Context method on shared operands, and three or four callers run
// that same program — so whatever a tree builds lazily on the first call of a
// method (tables, memos, sync.Once-less initialisers), on whichever path, is
// built while several callers are inside it.
func firstUse(p *plan.Plan, r *plan.Rng, nshared int) {
	for i := range p.Shared {
		if r.Bool() {
			p.Shared[i] = plan.Dec{Coeff: randDigits(r, 1+r.Intn(4)), Exp: int32(r.Range(-3, 18)), Neg: r.Chance(1, 3)}
		}
	}
	tk := &p.Tasks[0]
	if len(tk.Steps) > 24 {
		tk.Steps = tk.Steps[:24]
	}
	nregs := len(tk.Regs)
	sh := func() string { return fmt.Sprintf("s%d", r.Intn(nshared)) }
	var block []plan.Step
	for _, op := range c18Read1 {
		block = append(block, plan.Step{Op: op, Ctx: r.Intn(len(p.Contexts)), X: sh(), N: int64(r.Intn(64))})
	}
	for _, op := range c18Read2 {
		block = append(block, plan.Step{Op: op, Ctx: r.Intn(len(p.Contexts)), X: sh(), Y: sh()})
	}
	for _, op := range c18Ctx2 {
		block = append(block, plan.Step{Op: op, Ctx: r.Intn(len(p.Contexts)), D: fmt.Sprintf("r%d", r.Intn(nregs)), X: sh()})
	}
	for _, op := range c18Ctx3 {
		block = append(block, plan.Step{Op: op, Ctx: r.Intn(len(p.Contexts)), D: fmt.Sprintf("r%d", r.Intn(nregs)), X: sh(), Y: sh()})
	}
	block = append(block, plan.Step{Op: "Quantize", Ctx: r.Intn(len(p.Contexts)), D: fmt.Sprintf("r%d", r.Intn(nregs)), X: sh(), N: int64(r.Range(-12, 6))})
	// shuffled, so that no method is always first
	for i := len(block) - 1; i > 0; i-- {
		j := r.Intn(i + 1)
		block[i], block[j] = block[j], block[i]
	}
	if r.Bool() {
		tk.Steps = append(block, tk.Steps...)
	} else {
		tk.Steps = append(tk.Steps, block...)
	}
	herd(p, r.Range(3, 4))
}

// herd replaces the tasks of p by n copies of its first task (same program,
// same private register values, same shared operands).
func herd(p *plan.Plan, n int) {
	base := p.Tasks[0]
	p.Tasks = nil
	for t := 0; t < n; t++ {
		p.Tasks = append(p.Tasks, plan.Task{Regs: append([]plan.Dec(nil), base.Regs...), Steps: append([]plan.Step(nil), base.Steps...)})
	}
}

// c18World is the instantiated world of a plan.
type c18World struct {
	globalsSuspect uint64 // monitor calls at which the raw hash of package state differed
	ticks          uint64
	ctxs           []*apd.Context
	shared         []*apd.Decimal
	snapS          []RawDec
	snapC          []RawCtx
	violated       string // first I-shared violation (written in norace code)
}

var theWorld *c18World

//go:norace
func c18Monitor() {
	w := theWorld
	if w == nil || w.violated != "" {
		return
	}
	for i, d := range w.shared {
		if !SameDec(d, &w.snapS[i]) {
			w.violated = "s" + itoa(i)
			return
		}
	}
	for i, c := range w.ctxs {
		if !SameCtx(c, &w.snapC[i]) {
			w.violated = "c" + itoa(i)
			return
		}
	}
	// package state: raw hash at every 16th call (it is ~20 KB of memory);
	// a difference is decided by the deep comparison after the tasks joined
	w.ticks++
	if gs := globalSnap; gs != nil && w.ticks&15 == 0 && !gs.FastSame() {
		w.globalsSuspect++
	}
}

//go:norace
func itoa(i int) string {
	if i == 0 {
		return "0"
	}
	var b [20]byte
	n := len(b)
	for i > 0 {
		n--
		b[n] = byte('0' + i%10)
		i /= 10
	}
	return string(b[n:])
}

//go:norace
func worldViolated() string {
	if theWorld == nil {
		return ""
	}
	return theWorld.violated
}

type stepBase struct {
	out   Outcome
	steps uint64 // yields of this step in the solo run
	start uint64 // yield index at which the step starts (local to the task)
	hot   []uint64
	sync  []uint64 // yields right after a synchronising statement (lock section, atomic, once)
}

// C18Stats are measured per run.
type C18Stats struct {
	Steps, Switches, InOpSwitches, HotSwitches uint64
	Ops                                        uint64
	SitePairs                                  map[uint64]struct{}
	Overlap                                    map[string]struct{}
}

type c18TaskRun struct {
	env  Env
	base []stepBase
	viol *plan.Violation
	hung bool
	// per-task result digest
	digest uint64
}

func opClass(st *plan.Step) string {
	s := 0
	for _, r := range []string{st.X, st.Y} {
		if strings.HasPrefix(r, "s") {
			s++
		}
	}
	return fmt.Sprintf("%s/%d", st.Op, s)
}

func buildTaskEnv(w *c18World, tk *plan.Task, ctxForED *apd.Context) Env {
	e := Env{Ctxs: w.ctxs, Shared: w.shared}
	for _, d := range tk.Regs {
		e.Regs = append(e.Regs, BuildDec(d))
	}
	ed := apd.MakeErrDecimal(ctxForED)
	e.ED = &ed
	return e
}

// RunC18 executes one plan. If the plan has no schedule one is generated from
// the plan's seed after the solo phase (the solo phase is what makes local
// step indices known), and stored in the plan.
func RunC18(p *plan.Plan, keepLog bool) (*plan.Result, *C18Stats) { return runC18(p, keepLog, false) }

func materialiseC18(p *plan.Plan) { runC18(p, false, true) }

func runC18(p *plan.Plan, keepLog bool, soloOnly bool) (*plan.Result, *C18Stats) {
	res := &plan.Result{Run: p.Run, Stats: map[string]uint64{}}
	stats := &C18Stats{SitePairs: map[uint64]struct{}{}, Overlap: map[string]struct{}{}}
	w := &c18World{}
	for _, c := range p.Contexts {
		w.ctxs = append(w.ctxs, BuildCtx(c))
	}
	for _, d := range p.Shared {
		w.shared = append(w.shared, BuildDec(d))
	}
	w.snapS = make([]RawDec, len(w.shared))
	for i, d := range w.shared {
		SnapDec(d, &w.snapS[i])
	}
	w.snapC = make([]RawCtx, len(w.ctxs))
	for i, c := range w.ctxs {
		w.snapC[i] = SnapCtx(c)
	}
	theWorld = w
	defer func() { theWorld = nil }()
	gs := globalSnap
	if (p.Mode == "sync" || p.Mode == "coldsync") && nSyncSites == 0 {
		// the tree under test has no lock, once or atomic: nothing to aim at
		res.Stats["skipped_no_sync_sites"] = 1
		res.Sig = planSig(p)
		res.Digest = "nosync"
		return res, stats
	}

	addViol := func(v plan.Violation) {
		res.Violations = append(res.Violations, v)
	}
	runs := make([]*c18TaskRun, len(p.Tasks))
	for ti := range runs {
		runs[ti] = &c18TaskRun{base: make([]stepBase, len(p.Tasks[ti].Steps))}
	}
	skipped := func() (*plan.Result, *C18Stats) {
		// the fault-free solo execution itself is too long for the simulator's
		// budget (e.g. Cbrt of 1E-99999 loops ~10^5 times): not a verdict
		sRecordHot = false
		setMode(modeOff)
		res.Violations = nil
		res.Stats["skipped_budget"] = 1
		res.Sig = planSig(p)
		res.Digest = "skipped"
		return res, stats
	}

	// Solo phase: every task's program alone, on this goroutine. It gives the
	// specification of each call (its solo outcome) and the local step indices.
	solo := func() (ok bool, abort bool) {
		// a call that the simulator itself abandoned earlier in this run (step
		// budget) may have left locks held: nothing after it gives a verdict
		wasUnwound := peekUnwound()
		setMode(modeCount)
		sRecordHot = true
		defer func() { sRecordHot = false; setMode(modeOff); setWallCap(0) }()
		var total uint64
		soloStart := time.Now()
		for ti := range p.Tasks {
			tk := &p.Tasks[ti]
			tr := runs[ti]
			tr.env = buildTaskEnv(w, tk, w.ctxs[0])
			var a Args
			var local uint64
			for si := range tk.Steps {
				st := &tk.Steps[si]
				def := Ops[st.Op]
				if def == nil {
					continue
				}
				tr.env.Resolve(st, &a)
				sHotSteps = sHotSteps[:0]
				sSyncSteps = sSyncSteps[:0]
				beginOp(c18OpCap)
				setWallCap(4 * time.Second)
				o := Exec(def, &a)
				setWallCap(0)
				n := opSteps()
				total += n
				if o.Deadlock && !wasUnwound {
					// run alone, the call waits for a lock nobody holds any more: an
					// earlier call (of this process) left it locked
					addViol(plan.Violation{Property: "C18", Class: "C18/deadlock", Key: "lock-left-held", Task: ti, Step: si,
						Detail: fmt.Sprintf("task %d step %d %s, executed alone, waits for a lock that was left held by an earlier operation of this process", ti, si, st.Op)})
					return true, true
				}
				if o.Hang || total > c18RunCap || time.Since(soloStart) > 12*time.Second {
					return false, false
				}
				tr.base[si] = stepBase{out: o, steps: n, start: local, hot: append([]uint64(nil), sHotSteps...), sync: append([]uint64(nil), sSyncSteps...)}
				local += n
			}
		}
		c18Monitor()
		if v := worldViolated(); v != "" {
			addViol(plan.Violation{Property: "C18", Class: "C18/shared-modified-solo", Key: v, Detail: "shared " + v + " modified during solo baseline: " + describeShared(w, v)})
			return true, true
		}
		if gs != nil {
			if d := gs.Check(); d != "" {
				addViol(plan.Violation{Property: "C18", Class: "C18/globals-modified", Key: firstWord(d), Detail: "package state changed during solo baseline: " + d})
				return true, true
			}
		}
		return true, false
	}

	// Concurrent phase under the plan's schedule. With a baseline available
	// each step is compared as it completes; otherwise (cold mode) outcomes
	// are recorded and compared once the solo phase has run.
	conc := make([][]Outcome, len(p.Tasks))
	concurrent := func(haveBase bool) {
		for ti := range p.Tasks {
			runs[ti].env = buildTaskEnv(w, &p.Tasks[ti], w.ctxs[0])
			conc[ti] = make([]Outcome, len(p.Tasks[ti].Steps))
		}
		resetSched(len(p.Tasks), p.Schedule, keepLog)
		sMonitor = c18Monitor
		var wg sync.WaitGroup
		sJoin = &wg
		defer func() { sJoin = nil }()
		setMode(modeSched)
		if !haveBase {
			setWallCap(20 * time.Second)
			defer setWallCap(0)
		}
		for ti := range p.Tasks {
			wg.Add(1)
			go func(ti int) {
				defer wg.Done()
				waitTurn(ti)
				tk := &p.Tasks[ti]
				tr := runs[ti]
				var a Args
				for si := range tk.Steps {
					if aborted() {
						break
					}
					st := &tk.Steps[si]
					def := Ops[st.Op]
					if def == nil {
						continue
					}
					tr.env.Resolve(st, &a)
					setInOp(ti, int32(si))
					if haveBase {
						setTaskBudget(ti, 20*tr.base[si].steps+2_000_000)
					} else {
						setTaskBudget(ti, c18OpCap)
					}
					o := Exec(def, &a)
					setInOp(ti, -1)
					conc[ti][si] = o
					if haveBase && o != tr.base[si].out {
						tr.viol = &plan.Violation{Property: "C18", Class: "C18/solo-mismatch/" + st.Op, Key: st.Op,
							Detail: fmt.Sprintf("task %d step %d %s: concurrent outcome differs from solo run\n  solo:       %s\n  concurrent: %s", ti, si, st.Op, tr.base[si].out, o), Task: ti, Step: si}
						setAbort()
						break
					}
					if !haveBase && o.Hang && !o.Deadlock {
						tr.hung = true
						setAbort()
						break
					}
					tr.digest = plan.Mix(tr.digest ^ hashString(o.String()))
				}
				finish(ti)
			}(ti)
		}
		wg.Wait()
		setMode(modeOff)
		sMonitor = nil
		c18Monitor()
		stats.Steps = clock()
		stats.Switches = sSwitches
	}

	sortSchedule := func() {
		sort.SliceStable(p.Schedule.Preempt, func(i, j int) bool {
			a, b := p.Schedule.Preempt[i], p.Schedule.Preempt[j]
			if a.Task != b.Task {
				return a.Task < b.Task
			}
			return a.At < b.At
		})
	}

	if !p.Cold {
		ok, abort := solo()
		if !ok {
			return skipped()
		}
		if abort {
			return res, stats
		}
		if p.Schedule == nil {
			p.Schedule = genSchedule(p, runs)
		}
		sortSchedule()
		if soloOnly {
			return res, stats
		}
		concurrent(true)
	} else {
		// cold mode: the concurrent phase comes first, so that lazily
		// initialised state (caches, sync.Once, pools) is first touched by
		// concurrent tasks and not warmed by the solo phase.
		if p.Schedule == nil {
			p.Schedule = genBlindSchedule(p)
		}
		sortSchedule()
		if soloOnly {
			return res, stats
		}
		concurrent(false)
		hung := false
		for _, tr := range runs {
			hung = hung || tr.hung
		}
		if hung {
			// without a baseline the budget is absolute; a call that exceeds it was
			// abandoned by the simulator (possibly holding a lock) and what follows
			// in this process gives no verdict (the ordinary jobs, which know each
			// call's solo length, decide hangs)
			return skipped()
		}
		if deadlocked() {
			// every live task waited for a lock none of them could release: that is
			// the violation, whatever the solo phase would say (and the solo phase
			// could say nothing reliable in a process whose locks are now stuck)
			addViol(plan.Violation{Property: "C18", Class: "C18/deadlock", Key: "deadlock",
				Detail: "every live task waits for a lock that none of them can release (cold process state, concurrent phase first)"})
			res.Stats["cold_runs"] = 1
			res.Stats["fault_lock_wait"] = sLockWaits
			res.Sig = planSig(p)
			res.Digest = "deadlock"
			return res, stats
		}
		sw, steps := stats.Switches, stats.Steps
		evh := sEvHash
		ok, abort := solo()
		stats.Switches, stats.Steps = sw, steps
		sEvHash = evh
		if !ok {
			return skipped()
		}
		if hung {
			addViol(plan.Violation{Property: "C18", Class: "C18/hang", Key: "hang", Detail: "an operation exceeded the step budget in the concurrent phase but completes when run alone"})
		}
		if !abort && !hung {
			for ti, tr := range runs {
				for si := range tr.base {
					if conc[ti][si] != tr.base[si].out && Ops[p.Tasks[ti].Steps[si].Op] != nil {
						st := &p.Tasks[ti].Steps[si]
						tr.viol = &plan.Violation{Property: "C18", Class: "C18/solo-mismatch/" + st.Op, Key: st.Op,
							Detail: fmt.Sprintf("task %d step %d %s: concurrent outcome (cold process state) differs from solo run\n  solo:       %s\n  concurrent: %s", ti, si, st.Op, tr.base[si].out, conc[ti][si]), Task: ti, Step: si}
						break
					}
				}
			}
		}
	}

	if deadlocked() {
		inflight := ""
		for ti := range p.Tasks {
			if ti < len(sDeadlockOps) && sDeadlockOps[ti] >= 0 && int(sDeadlockOps[ti]) < len(p.Tasks[ti].Steps) {
				si := sDeadlockOps[ti]
				inflight += fmt.Sprintf(" task %d: step %d %s;", ti, si, p.Tasks[ti].Steps[si].Op)
			}
		}
		addViol(plan.Violation{Property: "C18", Class: "C18/deadlock", Key: "deadlock",
			Detail: "every live task waits for a lock that none of them can release (calls that complete when run alone do not return when run concurrently);" + inflight})
		for _, tr := range runs {
			tr.viol = nil
		}
	}
	res.Stats["fault_lock_wait"] = sLockWaits
	for ti, tr := range runs {
		if tr.viol != nil {
			addViol(*tr.viol)
		}
		stats.Ops += uint64(len(p.Tasks[ti].Steps))
	}
	if v := worldViolated(); v != "" {
		addViol(plan.Violation{Property: "C18", Class: "C18/shared-modified", Key: v[:1], Detail: "shared " + v + " was written during the concurrent phase: " + describeShared(w, v)})
	}
	if gs != nil {
		if d := gs.Check(); d != "" {
			addViol(plan.Violation{Property: "C18", Class: "C18/globals-modified", Key: firstWord(d), Detail: "package state changed: " + d})
		} else if w.globalsSuspect > 0 {
			gs.Rebase()
		}
	}
	// statistics on where preemptions landed
	nontrivial := false
	for _, pr := range p.Schedule.Preempt {
		if pr.Task < 0 || pr.Task >= len(runs) {
			continue
		}
		tr := runs[pr.Task]
		si := sort.Search(len(tr.base), func(i int) bool { return tr.base[i].start+tr.base[i].steps >= pr.At })
		if si < len(tr.base) && pr.At > tr.base[si].start && pr.At < tr.base[si].start+tr.base[si].steps {
			st := &p.Tasks[pr.Task].Steps[si]
			if strings.HasPrefix(st.X, "s") || strings.HasPrefix(st.Y, "s") {
				stats.InOpSwitches++
				nontrivial = true
				stats.Overlap[opClass(st)] = struct{}{}
			}
			for _, h := range tr.base[si].hot {
				if h+tr.base[si].start == pr.At || h+tr.base[si].start+1 == pr.At {
					stats.HotSwitches++
				}
			}
		}
	}
	res.Nontrivial = nontrivial && stats.Switches > 0
	var dg uint64
	for _, tr := range runs {
		dg = plan.Mix(dg ^ tr.digest)
	}
	res.Digest = fmt.Sprintf("%016x-%016x-%d", dg, sEvHash, stats.Switches)
	res.Stats["steps"] = stats.Steps
	res.Stats["fault_preempt"] = stats.Switches
	res.Stats["fault_preempt_inside_op_on_shared_operand"] = stats.InOpSwitches
	res.Stats["fault_preempt_right_after_table_pointer"] = stats.HotSwitches
	res.Stats["globals_hash_suspect_switches"] = w.globalsSuspect
	if p.Cold {
		res.Stats["cold_runs"] = 1
	}
	for k := range stats.Overlap {
		res.Stats["overlap_"+k]++
	}
	res.Stats["ops"] = stats.Ops
	res.Stats["tasks"] = uint64(len(p.Tasks))
	res.Sig = planSig(p)
	return res, stats
}

// genBlindSchedule draws a schedule without knowing step counts (cold mode):
// every task is preempted periodically; entries beyond a task's actual length
// simply never fire.
func genBlindSchedule(p *plan.Plan) *plan.Schedule {
	r := plan.NewRng(plan.Derive(p.Seed, p.Run, 181818))
	k := len(p.Tasks)
	sch := &plan.Schedule{First: r.Intn(k)}
	for t := 0; t < k; t++ {
		period := uint64([]int{40, 150, 600, 2500, 10000}[r.Intn(5)])
		if p.Mode == "coldsync" {
			// short periods: the windows of interest (between a failed look-up
			// and the lock that follows it) are a few yields wide
			period = uint64([]int{6, 15, 40, 120}[r.Intn(4)])
		}
		at := uint64(1 + r.Intn(int(period)))
		for j := 0; j < 600; j++ {
			to := t
			if k > 1 {
				to = r.Intn(k - 1)
				if to >= t {
					to++
				}
			}
			sch.Preempt = append(sch.Preempt, plan.Preempt{Task: t, At: at, To: to})
			at += 1 + uint64(r.Intn(int(2*period)))
		}
	}
	return sch
}

func describeShared(w *c18World, v string) string {
	var i int
	fmt.Sscanf(v[1:], "%d", &i)
	if v[0] == 's' {
		return DiffDec(w.shared[i], &w.snapS[i])
	}
	return fmt.Sprintf("context %d now %+v", i, *w.ctxs[i])
}

func hashString(s string) uint64 {
	h := uint64(1469598103934665603)
	for i := 0; i < len(s); i++ {
		h ^= uint64(s[i])
		h *= 1099511628211
	}
	return h
}

func planSig(p *plan.Plan) string {
	var h uint64
	for _, t := range p.Tasks {
		for _, s := range t.Steps {
			h = plan.Mix(h ^ hashString(s.Op+s.X+s.Y+s.D+s.I+s.F+s.Poison+s.S) ^ uint64(s.N)<<7 ^ uint64(s.Ctx)<<3)
			if s.Traps != nil {
				h = plan.Mix(h ^ uint64(*s.Traps))
			}
		}
	}
	if p.Schedule != nil {
		for _, pr := range p.Schedule.Preempt {
			h = plan.Mix(h ^ uint64(pr.Task)<<56 ^ pr.At<<8 ^ uint64(pr.To))
		}
	}
	return fmt.Sprintf("%016x", h)
}

// genSchedule draws a schedule from the plan's seed, knowing each task's solo
// step counts. Two modes mixed per run: few preemptions aimed inside
// operations on shared operands (biased to the first/last tenth of the
// operation and to steps right after a pointer into package state was
// obtained), or dense switching.
func genSchedule(p *plan.Plan, runs []*c18TaskRun) *plan.Schedule {
	r := plan.NewRng(plan.Derive(p.Seed, p.Run, 1818))
	k := len(p.Tasks)
	sch := &plan.Schedule{First: r.Intn(k)}
	totals := make([]uint64, k)
	for i, tr := range runs {
		if n := len(tr.base); n > 0 {
			totals[i] = tr.base[n-1].start + tr.base[n-1].steps
		}
	}
	other := func(t int) int {
		if k == 1 {
			return t
		}
		o := r.Intn(k - 1)
		if o >= t {
			o++
		}
		return o
	}
	// check-then-act windows: yields right after a lock section / atomic
	type target struct {
		task int
		at   uint64
	}
	var syncTargets []target
	for t, tr := range runs {
		for _, b := range tr.base {
			for _, s := range b.sync {
				if len(syncTargets) < 4096 {
					syncTargets = append(syncTargets, target{t, b.start + s})
				}
			}
		}
	}
	aimSync := func(n int) {
		for i := 0; i < n && len(syncTargets) > 0; i++ {
			tg := syncTargets[r.Intn(len(syncTargets))]
			at := tg.at + uint64(r.Intn(2))
			if at == 0 {
				at = 1
			}
			sch.Preempt = append(sch.Preempt, plan.Preempt{Task: tg.task, At: at, To: other(tg.task)})
		}
	}
	if p.Mode == "sync" {
		aimSync(4 + r.Intn(24))
	} else if len(syncTargets) > 0 {
		aimSync(r.Intn(8))
	}
	if p.Mode == "sync" && r.Chance(2, 3) {
		// only the aimed preemptions
	} else if r.Chance(1, 2) {
		// few, aimed preemptions
		n := r.Intn(13)
		for i := 0; i < n; i++ {
			t := r.Intn(k)
			tr := runs[t]
			if len(tr.base) == 0 || totals[t] == 0 {
				continue
			}
			var at uint64
			switch r.Intn(6) {
			case 0:
				at = 1 + r.U64()%totals[t]
			default:
				si := r.Intn(len(tr.base))
				// prefer steps that read shared operands
				for tries := 0; tries < 4; tries++ {
					st := &p.Tasks[t].Steps[si]
					if strings.HasPrefix(st.X, "s") || strings.HasPrefix(st.Y, "s") {
						break
					}
					si = r.Intn(len(tr.base))
				}
				b := tr.base[si]
				if b.steps < 2 {
					at = b.start + 1
					break
				}
				switch r.Intn(5) {
				case 0: // first tenth
					at = b.start + 1 + r.U64()%(b.steps/10+1)
				case 1: // last tenth
					at = b.start + b.steps - r.U64()%(b.steps/10+1)
				case 2:
					if len(b.hot) > 0 {
						at = b.start + b.hot[r.Intn(len(b.hot))] + uint64(r.Intn(2))
						break
					}
					fallthrough
				default:
					at = b.start + 1 + r.U64()%b.steps
				}
			}
			if at == 0 {
				at = 1
			}
			sch.Preempt = append(sch.Preempt, plan.Preempt{Task: t, At: at, To: other(t)})
		}
	} else {
		// dense: geometric gaps
		period := []int{50, 200, 1000, 5000}[r.Intn(4)]
		pos := make([]uint64, k)
		cur := sch.First
		budget := 12000
		for budget > 0 {
			gap := uint64(1 + r.Intn(2*period))
			at := pos[cur] + gap
			if at >= totals[cur] {
				// task runs to completion; the fallback rule picks the next runnable one
				pos[cur] = totals[cur]
				nxt := -1
				for i := 0; i < k; i++ {
					if pos[i] < totals[i] {
						nxt = i
						break
					}
				}
				if nxt < 0 {
					break
				}
				cur = nxt
				continue
			}
			to := other(cur)
			if pos[to] >= totals[to] {
				// pick any unfinished one
				to = -1
				for i := 0; i < k; i++ {
					if i != cur && pos[i] < totals[i] {
						to = i
						break
					}
				}
				if to < 0 {
					break
				}
			}
			sch.Preempt = append(sch.Preempt, plan.Preempt{Task: cur, At: at, To: to})
			pos[cur] = at
			cur = to
			budget--
		}
	}
	// dedupe identical (task, at)
	sort.SliceStable(sch.Preempt, func(i, j int) bool {
		a, b := sch.Preempt[i], sch.Preempt[j]
		if a.Task != b.Task {
			return a.Task < b.Task
		}
		return a.At < b.At
	})
	out := sch.Preempt[:0]
	for i, pr := range sch.Preempt {
		if i > 0 && pr.Task == sch.Preempt[i-1].Task && pr.At == sch.Preempt[i-1].At {
			continue
		}
		out = append(out, pr)
	}
	sch.Preempt = out
	return sch
}

// globalSnap is taken once per process right after package initialisation.
var globalSnap *GlobalSnap

func InitGlobals() { globalSnap = SnapGlobals() }
