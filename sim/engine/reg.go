package engine

import (
	"encoding/json"
	"fmt"
	"os"
	"strings"

	"apdsim/plan"

	apd "github.com/cockroachdb/apd/v3"
)

// The one-task register machine that decides C06 (prior destination state,
// history, operand / context / package-state immutability) and C05 (storage
// sharing between destination and operands). The reference model is value
// semantics: the clean-room call — same method on fresh, distinct copies of the
// operand values and a fresh zero destination.

var poisonKinds = []string{"nan", "snan", "inf", "-inf", "negfinite", "heap60", "exp+", "exp-", "smallheap", "negzero"}

func applyPoison(d *apd.Decimal, kind string) {
	switch kind {
	case "nan":
		FillDec(d, plan.Dec{Form: 3, Coeff: "0"})
	case "snan":
		FillDec(d, plan.Dec{Form: 2, Neg: true, Coeff: "1234"})
	case "inf":
		FillDec(d, plan.Dec{Form: 1, Coeff: "0"})
	case "-inf":
		FillDec(d, plan.Dec{Form: 1, Neg: true, Coeff: "0"})
	case "negfinite":
		FillDec(d, plan.Dec{Neg: true, Coeff: "123456", Exp: -3})
	case "heap60":
		FillDec(d, plan.Dec{Coeff: strings.Repeat("8642097531", 6), Exp: 17})
	case "exp+":
		FillDec(d, plan.Dec{Coeff: "7", Exp: 100000})
	case "exp-":
		FillDec(d, plan.Dec{Neg: true, Coeff: "31", Exp: -100000})
	case "smallheap":
		FillDec(d, plan.Dec{Coeff: "5", Exp: 0, Heap: true})
	case "negzero":
		FillDec(d, plan.Dec{Neg: true, Coeff: "0", Exp: -4})
	}
}

var regCtx3 = []string{"Add", "Sub", "Mul", "Quo", "QuoInteger", "Rem", "Pow", "Cmp"}
var regRead1 = []string{"Sign", "CondInfo", "ShouldAddOne", "String", "Text", "Sprintf", "Int64", "Float64", "Decompose", "MarshalText"}
var regCtx2 = []string{"RounderRound", "Abs", "Neg", "Round", "Sqrt", "Cbrt", "Exp", "Ln", "Log10", "RoundToIntegralValue", "RoundToIntegralExact", "Ceil", "Floor", "Reduce"}

// GenReg draws a run of the register machine. mode: c05 | c06 | both.
func GenReg(seed, run uint64, tier, mode string) *plan.Plan {
	r := plan.NewRng(plan.Derive(seed, run, 506))
	prop := "C06"
	if mode == "c05" {
		prop = "C05"
	}
	p := &plan.Plan{V: 1, Property: prop, Workload: "reg", Mode: mode, Seed: seed, Run: run}
	maxPrec := uint32(20)
	switch r.Intn(8) {
	case 0:
		maxPrec = 60
		if r.Chance(1, 3) {
			// occasionally very high precision: internal tables and constants
			// have precision-dependent paths (constWithPrecision, table misses)
			maxPrec = 200
		}
	case 1, 2:
		maxPrec = 34
	case 3:
		maxPrec = 7
	}
	nctx := r.Range(2, 5)
	for i := 0; i < nctx; i++ {
		traps := uint32(0)
		switch r.Intn(5) {
		case 0:
			traps = DefaultTraps
		case 1:
			traps = uint32(r.U64()) & 0xfff
		}
		p.Contexts = append(p.Contexts, GenCtx(r, traps, maxPrec))
	}
	if r.Chance(1, 3) {
		p.Contexts = append(p.Contexts, plan.Ctx{Base: true, Emax: 100000, Emin: -100000, Traps: DefaultTraps})
	}
	wide := r.Chance(1, 8)
	nshared := r.Range(3, 8)
	for i := 0; i < nshared; i++ {
		p.Shared = append(p.Shared, GenDec(r, wide))
	}
	// related operands (same digit count / neighbouring exponent)
	var pairs [][2]int
	for i := 1 + r.Intn(3); i > 0; i-- {
		a := r.Intn(len(p.Shared))
		p.Shared = append(p.Shared, Sibling(r, p.Shared[a]))
		pairs = append(pairs, [2]int{a, nshared})
		nshared++
	}
	var tk plan.Task
	nregs := r.Range(3, 6)
	for i := 0; i < nregs; i++ {
		tk.Regs = append(tk.Regs, GenDec(r, false))
	}
	n := r.Range(20, 200)
	if tier == "thorough" && r.Chance(1, 10) {
		n = r.Range(200, 1500)
	}
	heavyShare := r.Intn(3)
	aliasOn := mode != "c06"
	poisonOn := mode != "c05"
	reg := func(i int) string { return fmt.Sprintf("r%d", i) }
	for i := 0; i < n; i++ {
		st := plan.Step{Ctx: r.Intn(len(p.Contexts))}
		d := r.Intn(nregs)
		st.D = reg(d)
		// operand refs
		opnd := func(excl ...string) string {
			for {
				var ref string
				if r.Chance(5, 16) {
					ref = fmt.Sprintf("s%d", r.Intn(nshared))
				} else {
					ref = reg(r.Intn(nregs))
				}
				if aliasOn {
					return ref
				}
				ok := true
				for _, e := range excl {
					if e == ref {
						ok = false
					}
				}
				if ok {
					return ref
				}
			}
		}
		for {
			k := r.Intn(100)
			switch {
			case k < 40:
				st.Op = pick(r, regCtx3)
				st.X = opnd(st.D)
				st.Y = opnd(st.D, st.X)
				if aliasOn {
					// make the interesting patterns frequent
					switch r.Intn(8) {
					case 0:
						st.X = st.D
					case 1:
						st.Y = st.D
					case 2:
						st.Y = st.X
					case 3:
						st.X, st.Y = st.D, st.D
					}
				}
			case k < 70:
				st.Op = pick(r, regCtx2)
				st.X = opnd(st.D)
				if aliasOn && r.Chance(1, 3) {
					st.X = st.D
				}
			case k < 75:
				st.Op = "Quantize"
				st.X = opnd(st.D)
				st.N = int64(r.Range(-12, 6))
				if aliasOn && r.Chance(1, 3) {
					st.X = st.D
				}
			case k < 83:
				st.Op = "Modf"
				st.D = ""
				st.X = opnd()
				i2 := r.Intn(nregs)
				f2 := (i2 + 1 + r.Intn(nregs-1)) % nregs
				switch r.Intn(4) {
				case 0:
					st.I = reg(i2)
				case 1:
					st.F = reg(f2)
				default:
					st.I, st.F = reg(i2), reg(f2)
				}
				if aliasOn {
					switch r.Intn(4) {
					case 0:
						if st.I != "" {
							st.X = st.I
						}
					case 1:
						if st.F != "" {
							st.X = st.F
						}
					}
				} else {
					for st.X == st.I || st.X == st.F {
						st.X = fmt.Sprintf("s%d", r.Intn(nshared))
					}
				}
			case k < 91:
				st.Op = pick(r, c18Dec2)
				st.X = opnd(st.D)
				if aliasOn && r.Chance(1, 3) {
					st.X = st.D
				}
			case k < 95:
				st.Op = pick(r, c18DecSet)
				st.N = int64(r.U64()>>uint(r.Intn(64))) - int64(r.Intn(1000))
				st.S = GenParseString(r)
			case k < 96:
				st.Op = []string{"CtxSetString", "CtxNewFromString", "PkgNewFromString"}[r.Intn(3)]
				st.S = GenParseString(r)
			case k < 99:
				// ErrDecimal wrappers, each call on a fresh ErrDecimal (the latch
				// itself is C03's subject): destination state and aliasing must
				// not matter to a wrapper either
				switch r.Intn(5) {
				case 0, 1:
					st.Op = pick(r, latchOps3)
					st.X = opnd(st.D)
					st.Y = opnd(st.D, st.X)
				case 2, 3:
					st.Op = pick(r, latchOps2)
					st.X = opnd(st.D)
				default:
					st.Op = "EDQuantize"
					st.X = opnd(st.D)
					st.N = int64(r.Range(-12, 6))
				}
				if aliasOn && r.Chance(1, 3) {
					st.X = st.D
				}
			default:
				// read-only methods: operands must stay untouched
				if r.Bool() {
					st.Op = pick(r, regRead1)
					st.X = opnd()
					st.N = int64(r.Intn(64))
				} else {
					st.Op = pick(r, c18Read2)
					st.X, st.Y = opnd(), opnd()
				}
				st.D = ""
			}
			if def := Ops[st.Op]; def.Heavy && heavyShare == 0 {
				st = plan.Step{Ctx: st.Ctx, D: reg(d)}
				continue
			}
			break
		}
		if aliasOn && len(pairs) > 0 && Ops[st.Op].Kind == KCtx3 && (st.X == st.D || st.Y == st.D) && st.X != st.Y && r.Chance(1, 3) {
			// the aliased register is first loaded with one operand of a related
			// pair and the other operand of the call is its sibling
			pr := pairs[r.Intn(len(pairs))]
			if r.Bool() {
				pr[0], pr[1] = pr[1], pr[0]
			}
			tk.Steps = append(tk.Steps, plan.Step{Op: "DSet", Ctx: st.Ctx, D: st.D, X: fmt.Sprintf("s%d", pr[0])})
			if st.X == st.D {
				st.Y = fmt.Sprintf("s%d", pr[1])
			} else {
				st.X = fmt.Sprintf("s%d", pr[1])
			}
		}
		if (st.Op == "Sqrt" || st.Op == "Cbrt") && st.D != "" && r.Chance(1, 3) {
			// exact roots: the operand is loaded from a literal exact power
			k := 2
			if st.Op == "Cbrt" {
				k = 3
			}
			src := st.D
			if !aliasOn {
				src = reg((d + 1) % nregs)
			}
			tk.Steps = append(tk.Steps, plan.Step{Op: "DSetString", Ctx: st.Ctx, D: src, S: ExactPowerText(r, k)})
			st.X = src
		} else if aliasOn && st.D != "" && (st.X == st.D || st.Y == st.D) && len(tk.Steps) > 0 && tk.Steps[len(tk.Steps)-1].Op != "DSet" && r.Chance(1, 2) {
			// registers are overwritten all the time and soon hold only ordinary
			// results; an aliased destination is therefore often first loaded
			// with an operand from the shared pool (boundary values, exact powers,
			// heap-backed coefficients ...)
			tk.Steps = append(tk.Steps, plan.Step{Op: "DSet", Ctx: st.Ctx, D: st.D, X: fmt.Sprintf("s%d", r.Intn(nshared))})
		}
		if poisonOn && st.D != "" {
			switch {
			case r.Chance(1, 2):
				st.Poison = poisonKinds[r.Intn(len(poisonKinds))]
			default:
				st.Poison = "" // inherited: whatever history left in the register
			}
		}
		if poisonOn && st.Op == "Modf" && r.Chance(1, 2) {
			st.Poison = poisonKinds[r.Intn(len(poisonKinds))]
		}
		tk.Steps = append(tk.Steps, st)
	}
	p.Tasks = []plan.Task{tk}
	return p
}

func aliasPattern(a *Args) string {
	var parts []string
	if a.D != nil {
		if a.D == a.X {
			parts = append(parts, "d==x")
		}
		if a.D == a.Y {
			parts = append(parts, "d==y")
		}
	}
	if a.X != nil && a.X == a.Y {
		parts = append(parts, "x==y")
	}
	if a.I != nil && a.I == a.X {
		parts = append(parts, "integ==recv")
	}
	if a.F != nil && a.F == a.X {
		parts = append(parts, "frac==recv")
	}
	if len(parts) == 0 {
		return "distinct"
	}
	return strings.Join(parts, ",")
}

func cloneDec(d *apd.Decimal) *apd.Decimal {
	if d == nil {
		return nil
	}
	return BuildDec(DescribeDec(d))
}

// compareDest says whether the destination value is specified for this
// outcome: always without error; with an error only for a single-rounding
// operation whose error stems from a trapped condition (the result and flags
// are then still delivered).
func compareDest(def *OpDef, o Outcome, traps apd.Condition) bool {
	if o.Panic != "" {
		return false
	}
	if o.Err == "" {
		return true
	}
	sys := apd.Condition(o.Cond) & (apd.SystemOverflow | apd.SystemUnderflow)
	return def.Single && sys == 0 && apd.Condition(o.Cond)&traps != 0
}

// HistRecord is one clean-room evaluation, logged for the cross-process
// history oracle.
type HistRecord struct {
	Op  string    `json:"op"`
	Ctx plan.Ctx  `json:"ctx"`
	X   *plan.Dec `json:"x,omitempty"`
	Y   *plan.Dec `json:"y,omitempty"`
	I   bool      `json:"i,omitempty"`
	F   bool      `json:"f,omitempty"`
	N   int64     `json:"n,omitempty"`
	S   string    `json:"s,omitempty"`
	Out string    `json:"out"`
}

var histOut *json.Encoder
var histEvery uint64 = 1

// SetHistoryLog makes RunReg append every clean-room evaluation to path.
func SetHistoryLog(path string) error {
	f, err := os.OpenFile(path, os.O_CREATE|os.O_WRONLY|os.O_APPEND, 0o644)
	if err != nil {
		return err
	}
	histOut = json.NewEncoder(f)
	return nil
}

func describeCtx(c *apd.Context) plan.Ctx {
	name := string(c.Rounding)
	return plan.Ctx{P: c.Precision, Emax: c.MaxExponent, Emin: c.MinExponent, Traps: uint32(c.Traps), Round: name}
}

// recent is one remembered clean-room evaluation (in-process re-evaluation
// oracle).
type recent struct {
	def  *OpDef
	c    plan.Ctx
	x, y *plan.Dec
	i, f bool
	n    int64
	s    string
	out  Outcome
	step int
}

// reEvaluate runs remembered clean-room evaluations again, now, in this
// process: the same call on the same values must give the same outcome however
// many operations were executed in between (C06: independent of every operation
// executed earlier in the process).
func reEvaluate(ring []recent, addViol func(plan.Violation), now int, st map[string]uint64) {
	for k := range ring {
		rc := &ring[k]
		if rc.def == nil {
			continue
		}
		a := &Args{C: BuildCtx(rc.c), N: rc.n, S: rc.s}
		if rc.def.CtxName != "" {
			ed := apd.MakeErrDecimal(a.C)
			a.ED = &ed
		}
		if rc.x != nil {
			a.X = BuildDec(*rc.x)
		}
		if rc.y != nil {
			a.Y = BuildDec(*rc.y)
		}
		if rc.def.WritesD && rc.def.Kind != KModf {
			a.D = new(apd.Decimal)
		}
		if rc.i {
			a.I = new(apd.Decimal)
		}
		if rc.f {
			a.F = new(apd.Decimal)
		}
		beginOp(4 * soloOpCap)
		got := Exec(rc.def, a)
		st["reevaluated"]++
		if got != rc.out {
			x, y := "", ""
			if rc.x != nil {
				x = rc.x.Key()
			}
			if rc.y != nil {
				y = rc.y.Key()
			}
			addViol(plan.Violation{Property: "C06", Class: "C06/history-dependence/" + rc.def.Name, Key: "reevaluation", Step: now,
				Detail: fmt.Sprintf("%s ctx=%+v x=%s y=%s n=%d s=%q, a clean-room call on fresh values, gave\n  at step %d: %s\n  again after step %d: %s", rc.def.Name, rc.c, x, y, rc.n, rc.s, rc.step, rc.out, now, got)})
			return
		}
	}
}

// aliasReproduces rebuilds the step's alias pattern on fresh objects holding
// the pre-step operand values and reports whether the disagreement with the
// clean-room outcome shows again.
func aliasReproduces(def *OpDef, a *Args, rc *recent, want Outcome, traps apd.Condition) bool {
	var ox, oy *apd.Decimal
	if rc.x != nil {
		ox = BuildDec(*rc.x)
	}
	if rc.y != nil {
		if a.Y == a.X {
			oy = ox
		} else {
			oy = BuildDec(*rc.y)
		}
	}
	pickObj := func(p *apd.Decimal) *apd.Decimal {
		switch {
		case p == nil:
			return nil
		case p == a.X:
			return ox
		case p == a.Y:
			return oy
		}
		return new(apd.Decimal)
	}
	b := &Args{C: a.C, N: a.N, S: a.S, X: ox, Y: oy, D: pickObj(a.D), I: pickObj(a.I), F: pickObj(a.F)}
	if def.CtxName != "" {
		ed := apd.MakeErrDecimal(a.C)
		b.ED = &ed
	}
	beginOp(4 * soloOpCap)
	got := Exec(def, b)
	if got.Panic != want.Panic || got.Err != want.Err || got.Cond != want.Cond || got.Aux != want.Aux {
		return true
	}
	return compareDest(def, want, traps) && got.DVal != want.DVal
}

// cleanRoom runs def on fresh, distinct copies of the operand values with a
// fresh zero destination (and fresh zero Modf outputs).
func cleanRoom(def *OpDef, a *Args) (Outcome, *Args) {
	cr := &Args{C: a.C, N: a.N, S: a.S}
	if def.CtxName != "" {
		ed := apd.MakeErrDecimal(a.C)
		cr.ED = &ed
	}
	cr.X = cloneDec(a.X)
	cr.Y = cloneDec(a.Y)
	if a.D != nil {
		cr.D = new(apd.Decimal)
	}
	if a.I != nil {
		cr.I = new(apd.Decimal)
	}
	if a.F != nil {
		cr.F = new(apd.Decimal)
	}
	return Exec(def, cr), cr
}

// RunReg executes one run of the register machine.
func RunReg(p *plan.Plan) *plan.Result {
	res := &plan.Result{Run: p.Run, Stats: map[string]uint64{}}
	st := res.Stats
	env := Env{}
	for _, c := range p.Contexts {
		env.Ctxs = append(env.Ctxs, BuildCtx(c))
	}
	for _, d := range p.Shared {
		env.Shared = append(env.Shared, BuildDec(d))
	}
	tk := &p.Tasks[0]
	for _, d := range tk.Regs {
		env.Regs = append(env.Regs, BuildDec(d))
	}
	snapC := make([]RawCtx, len(env.Ctxs))
	for i, c := range env.Ctxs {
		snapC[i] = SnapCtx(c)
	}
	all := append(append([]*apd.Decimal{}, env.Regs...), env.Shared...)
	snaps := make([]RawDec, len(all))
	name := func(i int) string {
		if i < len(env.Regs) {
			return fmt.Sprintf("r%d", i)
		}
		return fmt.Sprintf("s%d", i-len(env.Regs))
	}
	seen := map[string]bool{}
	addViol := func(v plan.Violation) {
		id := v.Class + "|" + v.Key
		if seen[id] || len(res.Violations) >= 8 {
			return
		}
		seen[id] = true
		res.Violations = append(res.Violations, v)
	}
	prop := p.Property
	mode := p.Mode
	setMode(modeCount)
	defer setMode(modeOff)
	var a Args
	var digest uint64
	nontrivial := false
	ring := make([]recent, 48)
	lastReEval := -100
	for si := range tk.Steps {
		step := &tk.Steps[si]
		def := Ops[step.Op]
		if def == nil {
			continue
		}
		env.Resolve(step, &a)
		pat := aliasPattern(&a)
		// destination pre-state
		poison := step.Poison
		for _, dst := range []*apd.Decimal{a.D, a.I, a.F} {
			if dst == nil {
				continue
			}
			aliased := dst == a.X || dst == a.Y
			if aliased {
				poison = ""
				continue
			}
			switch {
			case mode == "c05":
				*dst = apd.Decimal{}
			case poison != "":
				applyPoison(dst, poison)
			}
		}
		prior := "zero"
		if a.D != nil {
			prior = priorClass(a.D)
		} else if a.I != nil {
			prior = priorClass(a.I)
		} else if a.F != nil {
			prior = priorClass(a.F)
		}
		// reference: clean-room call
		beginOp(soloOpCap)
		want, crArgs := cleanRoom(def, &a)
		n0 := opSteps()
		if want.Deadlock {
			addViol(plan.Violation{Property: "C06", Class: "C06/history-dependence/" + step.Op, Key: "lock-left-held", Step: si,
				Detail: fmt.Sprintf("step %d %s: a clean-room call waits for a lock that an earlier operation left held (or that it takes twice): it never returns", si, step.Op)})
			break
		}
		if want.Hang {
			// abandoned by the simulator: it may have left locks held or caches
			// half-filled, so the rest of this run gives no verdict
			st["skipped_budget"]++
			break
		}
		if histOut != nil && p.Run%histEvery == 0 {
			rec := HistRecord{Op: step.Op, Ctx: describeCtx(a.C), N: a.N, S: a.S, I: a.I != nil, F: a.F != nil, Out: want.String()}
			if a.X != nil {
				d := DescribeDec(a.X)
				rec.X = &d
			}
			if a.Y != nil {
				d := DescribeDec(a.Y)
				rec.Y = &d
			}
			histOut.Encode(&rec)
		}
		{
			rc := recent{def: def, c: describeCtx(a.C), i: a.I != nil, f: a.F != nil, n: a.N, s: a.S, out: want, step: si}
			if a.X != nil {
				d := DescribeDec(a.X)
				rc.x = &d
			}
			if a.Y != nil {
				d := DescribeDec(a.Y)
				rc.y = &d
			}
			ring[si%len(ring)] = rc
		}
		// snapshots of everything
		for i, d := range all {
			SnapDec(d, &snaps[i])
		}
		if def.CtxName != "" {
			ed := apd.MakeErrDecimal(a.C)
			a.ED = &ed
		}
		beginOp(20*n0 + 2_000_000)
		got := Exec(def, &a)
		st["steps"] += n0 + opSteps()
		st["ops"]++
		st["op_"+step.Op]++
		traps := a.C.Traps
		for _, o := range []Outcome{want, got} {
			if o.Self != "" {
				addViol(plan.Violation{Property: "C06", Class: "C06/argument-modified/" + step.Op, Key: "argument", Step: si,
					Detail: fmt.Sprintf("step %d %s: %s", si, step.Op, o.Self)})
			}
		}
		if got.Hang {
			addViol(plan.Violation{Property: prop, Class: prop + "/hang/" + step.Op, Key: pat + "/" + prior, Step: si,
				Detail: fmt.Sprintf("step %d %s (%s, prior destination %s): in-place call exceeded the step budget (clean-room call took %d steps)", si, step.Op, pat, prior, n0)})
			break
		}
		mismatch := ""
		switch {
		case got.Panic != want.Panic:
			mismatch = "panic"
		case got.Err != want.Err:
			mismatch = "error"
		case got.Cond != want.Cond:
			mismatch = "condition"
		case got.Aux != want.Aux:
			mismatch = "aux"
		case compareDest(def, want, traps) && got.DVal != want.DVal:
			mismatch = "destination"
		}
		if mismatch != "" {
			// attribution: storage sharing (C05) if the pattern is not
			// all-distinct, otherwise prior destination state (C06) — but only
			// if the reference itself is stable: when a second clean-room call on
			// the same (still unmodified) operand values no longer gives what
			// the first one gave, the call depends on what was executed before
			// it, which is C06's history clause whatever the alias pattern.
			vp, cls, key := "C06", "C06/prior-state/"+step.Op, prior
			if pat != "distinct" {
				vp, cls, key = "C05", "C05/alias/"+step.Op, pat
			}
			if rc := ring[si%len(ring)]; rc.def == def {
				one := []recent{rc}
				before := len(res.Violations)
				reEvaluate(one, addViol, si, st)
				if len(res.Violations) > before || seen["C06/history-dependence/"+step.Op+"|reevaluation"] {
					vp, cls, key = "C06", "C06/history-dependence/"+step.Op, "reevaluation"
				} else if vp == "C05" && !aliasReproduces(def, &a, &rc, want, traps) {
					// the same alias pattern on fresh objects agrees with the
					// clean-room call: storage sharing is not the cause
					vp, cls, key = "C06", "C06/history-dependence/"+step.Op, "unstable"
				}
			}
			addViol(plan.Violation{Property: vp, Class: cls, Key: key, Step: si,
				Detail: fmt.Sprintf("step %d %s ctx=%+v alias=%s prior-destination=%s: %s differs from the clean-room call\n  operands: x=%s y=%s n=%d s=%q\n  clean-room: %s\n  in-place:   %s",
					si, step.Op, *a.C, pat, prior, mismatch, DecVal(crArgs.X), DecVal(crArgs.Y), a.N, a.S, want, got)})
		} else {
			if pat != "distinct" {
				st["alias_"+pat]++
				if mode != "c06" {
					nontrivial = true
				}
			}
			if prior != "zero" && a.D != a.X && a.D != a.Y {
				st["fault_poison_"+prior]++
				if mode != "c05" && got.Err == "" {
					nontrivial = true
				}
			}
		}
		// well-formedness of outputs
		if got.Err == "" && got.Panic == "" {
			for _, dst := range []*apd.Decimal{a.D, a.I, a.F} {
				if dst == nil {
					continue
				}
				if w := WellFormed(dst); w != "" && mismatch == "" {
					// the clean-room call produced the same malformed value: not
					// a property of aliasing or history
					st["malformed_both"]++
				}
			}
		} else {
			for _, dst := range []*apd.Decimal{a.D, a.I, a.F} {
				if dst != nil && WellFormed(dst) != "" {
					dst.SetInt64(0)
				}
			}
		}
		// immutability of everything that is not a destination
		for i, d := range all {
			if d == a.D || d == a.I || d == a.F {
				continue
			}
			if !SameDec(d, &snaps[i]) {
				role := "bystander"
				if d == a.X {
					role = "x"
				} else if d == a.Y {
					role = "y"
				}
				addViol(plan.Violation{Property: "C06", Class: "C06/operand-modified/" + step.Op, Key: role, Step: si,
					Detail: fmt.Sprintf("step %d %s (%s): %s (%s) was modified: %s", si, step.Op, pat, name(i), role, DiffDec(d, &snaps[i]))})
				// re-baseline
				SnapDec(d, &snaps[i])
			}
		}
		for i, c := range env.Ctxs {
			if !SameCtx(c, &snapC[i]) {
				addViol(plan.Violation{Property: "C06", Class: "C06/context-modified/" + step.Op, Key: "ctx", Step: si,
					Detail: fmt.Sprintf("step %d %s: context %d changed to %+v", si, step.Op, i, *c)})
				snapC[i] = SnapCtx(c)
			}
		}
		if globalSnap != nil && (!globalSnap.FastSame() || si%16 == 15) {
			if d := globalSnap.Check(); d != "" {
				addViol(plan.Violation{Property: "C06", Class: "C06/globals-modified/" + step.Op, Key: firstWord(d), Step: si,
					Detail: fmt.Sprintf("step %d %s: package-level state changed: %s", si, step.Op, d)})
				break
			}
			globalSnap.Rebase()
		}
		digest = plan.Mix(digest ^ hashString(got.String()))
		// state added by the tree under test (caches ...) changed: is any earlier
		// call affected?
		if globalSnap != nil && globalSnap.LooseChanged() {
			st["loose_package_state_changes"]++
			if si-lastReEval >= 16 {
				lastReEval = si
				reEvaluate(ring, addViol, si, st)
			}
		}
	}
	if (p.Run%4 == 0 || lastReEval >= 0) && !peekUnwound() {
		reEvaluate(ring, addViol, len(tk.Steps), st)
	}
	if globalSnap != nil {
		if d := globalSnap.Check(); d != "" {
			addViol(plan.Violation{Property: "C06", Class: "C06/globals-modified/end", Key: firstWord(d), Detail: "package-level state changed: " + d})
		}
	}
	// a violation is reported under the property being checked by this job only
	// if it belongs to it; findings of the sibling property are kept (they are
	// genuine) but labelled with their own id.
	res.Digest = fmt.Sprintf("%016x", digest)
	res.Sig = planSig(p)
	res.Nontrivial = nontrivial
	return res
}

func firstWord(s string) string {
	if i := strings.IndexAny(s, ":[ ."); i > 0 {
		return s[:i]
	}
	return s
}

// priorClass classifies the prior content of a destination.
func priorClass(d *apd.Decimal) string {
	switch d.Form {
	case apd.NaN:
		return "nan"
	case apd.NaNSignaling:
		return "snan"
	case apd.Infinite:
		return "inf"
	}
	r := apd.VerifRepr(&d.Coeff)
	switch {
	case r.Known && !r.Inline && d.Coeff.BitLen() <= 128:
		return "smallheap"
	case r.Known && !r.Inline:
		return "heap"
	case d.Exponent > 1000 || d.Exponent < -1000:
		return "bigexp"
	case d.Coeff.Sign() == 0 && !d.Negative && d.Exponent == 0:
		return "zero"
	case d.Coeff.Sign() == 0:
		return "zerolike"
	case d.Negative:
		return "negfinite"
	}
	return "finite"
}

// ReHistory re-evaluates a history log in shuffled order in this (fresh)
// process; every record must give the outcome it gave in the process that
// logged it.
func ReHistory(path string, seed uint64, max int) (n int, viols []plan.Violation, err error) {
	f, err := os.Open(path)
	if err != nil {
		return 0, nil, err
	}
	defer f.Close()
	dec := json.NewDecoder(f)
	var recs []HistRecord
	for dec.More() {
		var r HistRecord
		if err := dec.Decode(&r); err != nil {
			return 0, nil, err
		}
		recs = append(recs, r)
	}
	r := plan.NewRng(seed)
	for i := len(recs) - 1; i > 0; i-- {
		j := r.Intn(i + 1)
		recs[i], recs[j] = recs[j], recs[i]
	}
	if max > 0 && len(recs) > max {
		recs = recs[:max]
	}
	setMode(modeCount)
	defer setMode(modeOff)
	seen := map[string]bool{}
	for _, rec := range recs {
		def := Ops[rec.Op]
		if def == nil {
			continue
		}
		a := &Args{C: BuildCtx(rec.Ctx), N: rec.N, S: rec.S}
		if def.CtxName != "" {
			ed := apd.MakeErrDecimal(a.C)
			a.ED = &ed
		}
		if rec.X != nil {
			a.X = BuildDec(*rec.X)
		}
		if rec.Y != nil {
			a.Y = BuildDec(*rec.Y)
		}
		if def.WritesD && def.Kind != KModf {
			a.D = new(apd.Decimal)
		}
		if rec.I {
			a.I = new(apd.Decimal)
		}
		if rec.F {
			a.F = new(apd.Decimal)
		}
		beginOp(4 * soloOpCap)
		got := Exec(def, a)
		n++
		if got.String() != rec.Out && !seen[rec.Op] {
			seen[rec.Op] = true
			x, y := "", ""
			if rec.X != nil {
				x = rec.X.Key()
			}
			if rec.Y != nil {
				y = rec.Y.Key()
			}
			viols = append(viols, plan.Violation{Property: "C06", Class: "C06/history-dependence/" + rec.Op, Key: rec.Op,
				Detail: fmt.Sprintf("%s ctx=%+v x=%s y=%s n=%d s=%q gave\n  in its original history: %s\n  in a fresh process (shuffled order): %s", rec.Op, rec.Ctx, x, y, rec.N, rec.S, rec.Out, got)})
		}
	}
	if globalSnap != nil {
		if d := globalSnap.Check(); d != "" {
			viols = append(viols, plan.Violation{Property: "C06", Class: "C06/globals-modified/rehistory", Key: firstWord(d), Detail: d})
		}
	}
	return n, viols, nil
}
