package engine

import (
	"bytes"
	"encoding/hex"
	"errors"
	"fmt"
	"io"
	"math/big"
	"math/rand"
	"strings"
	"unsafe"

	"apdsim/plan"

	apd "github.com/cockroachdb/apd/v3"
)

// C16: the BigInt register machine. R BigInt registers are mirrored by R
// math/big.Int registers; every step applies the same method with the same
// register indices (hence the same alias pattern) to both machines, and after
// every step all registers are compared and representation invariants are
// asserted.

type aArgs struct{ z, x, y, m, w *apd.BigInt }
type mArgs struct{ z, x, y, m, w *big.Int }

type bigOp struct {
	name  string
	uses  string // positions used, subset of "zxymw"
	outs  string // positions written
	nilOK string // positions that may be nil
	guard func(s *plan.BigStep, m *mArgs) bool
	run   func(s *plan.BigStep, a *aArgs) string
	ref   func(s *plan.BigStep, m *mArgs) string
}

var bigOps = map[string]*bigOp{}
var bigOpNames []string

func bop(name, uses, outs string, run func(s *plan.BigStep, a *aArgs) string, ref func(s *plan.BigStep, m *mArgs) string) *bigOp {
	o := &bigOp{name: name, uses: uses, outs: outs, run: run, ref: ref}
	bigOps[name] = o
	bigOpNames = append(bigOpNames, name)
	return o
}

func retA(r, z *apd.BigInt) string {
	switch {
	case r == nil:
		return "nil"
	case r == z:
		return "z"
	}
	return "other"
}

func retM(r, z *big.Int) string {
	switch {
	case r == nil:
		return "nil"
	case r == z:
		return "z"
	}
	return "other"
}

// bitProbes are the bit indices probed by every Props step (word boundaries of
// the 64-bit fast path and of the 128-bit inline array).
var bitProbes = []int{0, 1, 2, 31, 32, 33, 62, 63, 64, 65, 66, 95, 96, 126, 127, 128, 129, 191, 192, 255, 256}

// raw inputs for the decoders: what arrives from outside is not always the
// output of the matching encoder.
var rawJSON = []string{"null", "0", "-0", "12", "-12", `"12"`, " 12 ", "1e2", "12.0", "0x10", "12abc", "", "true", "[1]", "340282366920938463463374607431768211456", "-340282366920938463463374607431768211457", "18446744073709551616", "+5", "00012", "1_000"}
var rawText = []string{"", "0", "-0", "+12", "12", "-12", "0b11", "0o17", "0x1F", "1_000", " 5", "5 ", "12abc", "null", "<nil>", "340282366920938463463374607431768211455", "-18446744073709551616", "9223372036854775808", "1e3", "--1", "0755", "08", "-017", "00", "007", "+0644", "0_7", "09223372036854775807", "0777777777777777777777", "01777777777777777777777", "0b", "0x", "-0x8000000000000000", "0X_1"}
var rawGob = []string{"", "00", "01", "02", "03", "0201", "0301", "02ffffffffffffffff", "03ffffffffffffffffff", "020000000000000001", "04", "0401", "ff", "0200", "0300", "02" + strings.Repeat("ab", 40), "03" + strings.Repeat("01", 17), "020100000000000000000000000000000000"}

var fixedPrimes = []string{"2", "3", "5", "7", "13", "101", "65537", "4294967291", "4294967311", "18446744073709551557", "18446744073709551629",
	"340282366920938463463374607431768211297", "340282366920938463463374607431768211507", "115792089237316195423570985008687907853269984665640564039457584007913129639747"}

var bigFmtVerbs = []string{"%d", "%x", "%X", "%o", "%b", "%s", "%v", "%+d", "%08d", "%#x", "% d", "%10d", "%-10d|", "%q", "%#o", "%#b", "%#X", "%+x", "%.5d", "%20.10d", "%e"}

func hexBytes(s string) []byte {
	b, _ := hex.DecodeString(s)
	return b
}

func wordsOf(s string) []big.Word {
	// s is a hex string; each 16 hex digits one word (little endian order as given)
	var out []big.Word
	for len(s) >= 16 {
		var w uint64
		fmt.Sscanf(s[:16], "%x", &w)
		out = append(out, big.Word(w))
		s = s[16:]
	}
	return out
}

func init() {
	un := func(name string, fa func(z, x *apd.BigInt) *apd.BigInt, fm func(z, x *big.Int) *big.Int) {
		bop(name, "zx", "z", func(s *plan.BigStep, a *aArgs) string { return retA(fa(a.z, a.x), a.z) },
			func(s *plan.BigStep, m *mArgs) string { return retM(fm(m.z, m.x), m.z) })
	}
	un("Abs", (*apd.BigInt).Abs, (*big.Int).Abs)
	un("Neg", (*apd.BigInt).Neg, (*big.Int).Neg)
	un("Not", (*apd.BigInt).Not, (*big.Int).Not)
	un("Set", (*apd.BigInt).Set, (*big.Int).Set)
	un("Sqrt", (*apd.BigInt).Sqrt, (*big.Int).Sqrt)
	bin := func(name string, fa func(z, x, y *apd.BigInt) *apd.BigInt, fm func(z, x, y *big.Int) *big.Int) {
		bop(name, "zxy", "z", func(s *plan.BigStep, a *aArgs) string { return retA(fa(a.z, a.x, a.y), a.z) },
			func(s *plan.BigStep, m *mArgs) string { return retM(fm(m.z, m.x, m.y), m.z) })
	}
	bin("Add", (*apd.BigInt).Add, (*big.Int).Add)
	bin("Sub", (*apd.BigInt).Sub, (*big.Int).Sub)
	bin("Mul", (*apd.BigInt).Mul, (*big.Int).Mul)
	bin("Quo", (*apd.BigInt).Quo, (*big.Int).Quo)
	bin("Rem", (*apd.BigInt).Rem, (*big.Int).Rem)
	bin("Div", (*apd.BigInt).Div, (*big.Int).Div)
	bin("Mod", (*apd.BigInt).Mod, (*big.Int).Mod)
	bin("And", (*apd.BigInt).And, (*big.Int).And)
	bin("AndNot", (*apd.BigInt).AndNot, (*big.Int).AndNot)
	bin("Or", (*apd.BigInt).Or, (*big.Int).Or)
	bin("Xor", (*apd.BigInt).Xor, (*big.Int).Xor)
	bop("Lsh", "zx", "z", func(s *plan.BigStep, a *aArgs) string { return retA(a.z.Lsh(a.x, uint(s.N)), a.z) },
		func(s *plan.BigStep, m *mArgs) string { return retM(m.z.Lsh(m.x, uint(s.N)), m.z) })
	bop("Rsh", "zx", "z", func(s *plan.BigStep, a *aArgs) string { return retA(a.z.Rsh(a.x, uint(s.N)), a.z) },
		func(s *plan.BigStep, m *mArgs) string { return retM(m.z.Rsh(m.x, uint(s.N)), m.z) })
	bop("SetBit", "zx", "z", func(s *plan.BigStep, a *aArgs) string { return retA(a.z.SetBit(a.x, int(s.N), uint(s.K&1)), a.z) },
		func(s *plan.BigStep, m *mArgs) string { return retM(m.z.SetBit(m.x, int(s.N), uint(s.K&1)), m.z) })
	bop("QuoRem", "zxym", "zm", func(s *plan.BigStep, a *aArgs) string {
		q, r := a.z.QuoRem(a.x, a.y, a.m)
		return retA(q, a.z) + retA(r, a.m)
	}, func(s *plan.BigStep, m *mArgs) string {
		q, r := m.z.QuoRem(m.x, m.y, m.m)
		return retM(q, m.z) + retM(r, m.m)
	})
	bop("DivMod", "zxym", "zm", func(s *plan.BigStep, a *aArgs) string {
		q, r := a.z.DivMod(a.x, a.y, a.m)
		return retA(q, a.z) + retA(r, a.m)
	}, func(s *plan.BigStep, m *mArgs) string {
		q, r := m.z.DivMod(m.x, m.y, m.m)
		return retM(q, m.z) + retM(r, m.m)
	})
	exp := bop("Exp", "zxym", "z", func(s *plan.BigStep, a *aArgs) string { return retA(a.z.Exp(a.x, a.y, a.m), a.z) },
		func(s *plan.BigStep, m *mArgs) string { return retM(m.z.Exp(m.x, m.y, m.m), m.z) })
	exp.nilOK = "m"
	exp.guard = func(s *plan.BigStep, m *mArgs) bool {
		if m.m != nil && m.m.Sign() != 0 {
			return m.x.BitLen() <= 4096 && m.y.BitLen() <= 4096 && m.m.BitLen() <= 2048
		}
		return m.y.Sign() <= 0 || (m.y.BitLen() <= 8 && m.x.BitLen() <= 200)
	}
	bop("ExpSmall", "zx", "z", func(s *plan.BigStep, a *aArgs) string {
		var y apd.BigInt
		y.SetInt64(s.N)
		return retA(a.z.Exp(a.x, &y, nil), a.z)
	}, func(s *plan.BigStep, m *mArgs) string { return retM(m.z.Exp(m.x, big.NewInt(s.N), nil), m.z) }).guard = func(s *plan.BigStep, m *mArgs) bool {
		return m.x.BitLen() <= 300
	}
	bop("ModInverse", "zxy", "z", func(s *plan.BigStep, a *aArgs) string { return retA(a.z.ModInverse(a.x, a.y), a.z) },
		func(s *plan.BigStep, m *mArgs) string { return retM(m.z.ModInverse(m.x, m.y), m.z) }).guard = func(s *plan.BigStep, m *mArgs) bool {
		return m.y.Sign() != 0 // n == 0 divides by zero inside math/big in a way that is not part of its contract
	}
	bop("ModSqrt", "zx", "z", func(s *plan.BigStep, a *aArgs) string {
		var p apd.BigInt
		p.SetString(fixedPrimes[int(uint64(s.N)%uint64(len(fixedPrimes)))], 10)
		return retA(a.z.ModSqrt(a.x, &p), a.z)
	}, func(s *plan.BigStep, m *mArgs) string {
		p := bigFromText(fixedPrimes[int(uint64(s.N)%uint64(len(fixedPrimes)))])
		return retM(m.z.ModSqrt(m.x, p), m.z)
	})
	gcd := bop("GCD", "zxymw", "zxy", func(s *plan.BigStep, a *aArgs) string { return retA(a.z.GCD(a.x, a.y, a.m, a.w), a.z) },
		func(s *plan.BigStep, m *mArgs) string { return retM(m.z.GCD(m.x, m.y, m.m, m.w), m.z) })
	gcd.nilOK = "xy"
	bop("Binomial", "z", "z", func(s *plan.BigStep, a *aArgs) string { return retA(a.z.Binomial(s.N, s.K), a.z) },
		func(s *plan.BigStep, m *mArgs) string { return retM(m.z.Binomial(s.N, s.K), m.z) })
	bop("MulRange", "z", "z", func(s *plan.BigStep, a *aArgs) string { return retA(a.z.MulRange(s.N, s.K), a.z) },
		func(s *plan.BigStep, m *mArgs) string { return retM(m.z.MulRange(s.N, s.K), m.z) })
	bop("Rand", "zx", "z", func(s *plan.BigStep, a *aArgs) string {
		src := rand.New(rand.NewSource(s.N))
		r := retA(a.z.Rand(src, a.x), a.z)
		return r + fmt.Sprint(src.Int63()) // the next draw shows how much was consumed
	}, func(s *plan.BigStep, m *mArgs) string {
		src := rand.New(rand.NewSource(s.N))
		r := retM(m.z.Rand(src, m.x), m.z)
		return r + fmt.Sprint(src.Int63())
	}).guard = func(s *plan.BigStep, m *mArgs) bool { return m.x.Sign() > 0 }

	// setters
	bop("SetInt64", "z", "z", func(s *plan.BigStep, a *aArgs) string { return retA(a.z.SetInt64(s.N), a.z) },
		func(s *plan.BigStep, m *mArgs) string { return retM(m.z.SetInt64(s.N), m.z) })
	bop("SetUint64", "z", "z", func(s *plan.BigStep, a *aArgs) string { return retA(a.z.SetUint64(uint64(s.N)), a.z) },
		func(s *plan.BigStep, m *mArgs) string { return retM(m.z.SetUint64(uint64(s.N)), m.z) })
	bop("NewBigInt", "z", "z", func(s *plan.BigStep, a *aArgs) string { a.z.Set(apd.NewBigInt(s.N)); return "" },
		func(s *plan.BigStep, m *mArgs) string { m.z.Set(big.NewInt(s.N)); return "" })
	bop("SetString", "z", "z", func(s *plan.BigStep, a *aArgs) string {
		r, ok := a.z.SetString(s.S, int(s.N))
		if !ok {
			a.z.SetInt64(0) // value undefined after failure
		}
		return retA(r, a.z) + fmt.Sprint(ok)
	}, func(s *plan.BigStep, m *mArgs) string {
		r, ok := m.z.SetString(s.S, int(s.N))
		if !ok {
			m.z.SetInt64(0)
		}
		return retM(r, m.z) + fmt.Sprint(ok)
	})
	bop("SetBytes", "z", "z", func(s *plan.BigStep, a *aArgs) string {
		buf := hexBytes(s.S)
		return retA(a.z.SetBytes(buf), a.z) + fmt.Sprintf(" %x", buf) // the caller's bytes stay as they were
	}, func(s *plan.BigStep, m *mArgs) string {
		buf := hexBytes(s.S)
		return retM(m.z.SetBytes(buf), m.z) + fmt.Sprintf(" %x", buf)
	})
	bop("SetBits", "z", "z", func(s *plan.BigStep, a *aArgs) string { return retA(a.z.SetBits(wordsOf(s.S)), a.z) },
		func(s *plan.BigStep, m *mArgs) string { return retM(m.z.SetBits(wordsOf(s.S)), m.z) })
	bop("SetMathBigInt", "zx", "z", func(s *plan.BigStep, a *aArgs) string {
		src := a.x.MathBigInt()
		val := new(big.Int).Set(src)
		want := bigObsM(src)
		out := retA(a.z.SetMathBigInt(src), a.z)
		// z owns its value from here on: writing to z in place must not reach
		// the math/big value it was set from (a copy, not shared words)
		a.z.Rsh(a.z, 1)
		a.z.Add(a.z, a.z)
		a.z.Not(a.z)
		a.z.SetBit(a.z, 0, 1)
		if got := bigObsM(src); got != want {
			out += fmt.Sprintf(" [the *big.Int argument changed when the receiver was written afterwards: %s -> %s]", trim200(want), trim200(got))
		}
		a.z.SetMathBigInt(val)
		return out
	}, func(s *plan.BigStep, m *mArgs) string { return retM(m.z.Set(m.x), m.z) })

	// read-only
	ro := func(name, uses string, fa func(s *plan.BigStep, a *aArgs) string, fm func(s *plan.BigStep, m *mArgs) string) *bigOp {
		return bop(name, uses, "", fa, fm)
	}
	ro("Cmp", "zy", func(s *plan.BigStep, a *aArgs) string { return fmt.Sprint(a.z.Cmp(a.y), a.z.CmpAbs(a.y)) },
		func(s *plan.BigStep, m *mArgs) string { return fmt.Sprint(m.z.Cmp(m.y), m.z.CmpAbs(m.y)) })
	ro("Props", "z", func(s *plan.BigStep, a *aArgs) string {
		out := fmt.Sprint(a.z.Sign(), a.z.BitLen(), a.z.IsInt64(), a.z.IsUint64(), a.z.TrailingZeroBits(), a.z.Bit(int(s.N)), " ")
		for _, i := range bitProbes {
			out += fmt.Sprint(a.z.Bit(i))
		}
		return out
	}, func(s *plan.BigStep, m *mArgs) string {
		out := fmt.Sprint(m.z.Sign(), m.z.BitLen(), m.z.IsInt64(), m.z.IsUint64(), m.z.TrailingZeroBits(), m.z.Bit(int(s.N)), " ")
		for _, i := range bitProbes {
			out += fmt.Sprint(m.z.Bit(i))
		}
		return out
	})
	ro("Conv", "z", func(s *plan.BigStep, a *aArgs) string {
		out := ""
		if a.z.IsInt64() {
			out += fmt.Sprint(a.z.Int64())
		}
		if a.z.IsUint64() {
			out += fmt.Sprint("/", a.z.Uint64())
		}
		_ = a.z.Size()
		mb := a.z.MathBigInt()
		mbs := mb.String()
		// the returned value belongs to the caller: writing to it must not reach z
		// (z is compared with the mirror after the call)
		mb.Rsh(mb, 1)
		mb.Add(mb, mb)
		mb.Not(mb)
		mb.SetBit(mb, 0, 1)
		return out + fmt.Sprintf("|%x|%v|%s", a.z.Bytes(), a.z.Bits(), mbs)
	}, func(s *plan.BigStep, m *mArgs) string {
		out := ""
		if m.z.IsInt64() {
			out += fmt.Sprint(m.z.Int64())
		}
		if m.z.IsUint64() {
			out += fmt.Sprint("/", m.z.Uint64())
		}
		return out + fmt.Sprintf("|%x|%v|%s", m.z.Bytes(), m.z.Bits(), m.z.String())
	})
	ro("FillBytes", "z", func(s *plan.BigStep, a *aArgs) string {
		buf := make([]byte, int(s.N))
		for i := range buf {
			buf[i] = 0xaa
		}
		return fmt.Sprintf("%x", a.z.FillBytes(buf))
	}, func(s *plan.BigStep, m *mArgs) string {
		buf := make([]byte, int(s.N))
		for i := range buf {
			buf[i] = 0xaa
		}
		return fmt.Sprintf("%x", m.z.FillBytes(buf))
	})
	txt := ro("Text", "z", func(s *plan.BigStep, a *aArgs) string {
		base := int(s.N)
		return a.z.String() + "|" + a.z.Text(base) + "|" + string(a.z.Append([]byte("p"), base))
	}, func(s *plan.BigStep, m *mArgs) string {
		base := int(s.N)
		return m.z.String() + "|" + m.z.Text(base) + "|" + string(m.z.Append([]byte("p"), base))
	})
	txt.nilOK = "z"
	enc := ro("Encode", "z", func(s *plan.BigStep, a *aArgs) string {
		g, e1 := a.z.GobEncode()
		j, e2 := a.z.MarshalJSON()
		t, e3 := a.z.MarshalText()
		return fmt.Sprintf("%x %v|%s %v|%s %v", g, e1, j, e2, t, e3)
	}, func(s *plan.BigStep, m *mArgs) string {
		g, e1 := m.z.GobEncode()
		j, e2 := m.z.MarshalJSON()
		t, e3 := m.z.MarshalText()
		return fmt.Sprintf("%x %v|%s %v|%s %v", g, e1, j, e2, t, e3)
	})
	enc.nilOK = "z"
	sp := ro("Sprintf", "z", func(s *plan.BigStep, a *aArgs) string {
		return fmt.Sprintf(bigFmtVerbs[int(uint64(s.N)%uint64(len(bigFmtVerbs)))], a.z)
	}, func(s *plan.BigStep, m *mArgs) string {
		return fmt.Sprintf(bigFmtVerbs[int(uint64(s.N)%uint64(len(bigFmtVerbs)))], m.z)
	})
	sp.nilOK = "z"
	ro("ProbablyPrime", "z", func(s *plan.BigStep, a *aArgs) string { return fmt.Sprint(a.z.ProbablyPrime(int(s.N))) },
		func(s *plan.BigStep, m *mArgs) string { return fmt.Sprint(m.z.ProbablyPrime(int(s.N))) }).guard = func(s *plan.BigStep, m *mArgs) bool {
		return m.z.BitLen() <= 1200
	}

	// decoding of stored encodings, possibly corrupted (fault kind in s.F)
	dec := func(name string, encode func(m *big.Int) []byte, fa func(z *apd.BigInt, b []byte) error, fm func(z *big.Int, b []byte) error) {
		bop(name, "zx", "z", func(s *plan.BigStep, a *aArgs) string {
			b := corrupt(encode(a.x.MathBigInt()), s.F, s.FK)
			err := fa(a.z, b)
			if err != nil {
				a.z.SetInt64(0)
			}
			return fmt.Sprint(err != nil)
		}, func(s *plan.BigStep, m *mArgs) string {
			b := corrupt(encode(m.x), s.F, s.FK)
			err := fm(m.z, b)
			if err != nil {
				m.z.SetInt64(0)
			}
			return fmt.Sprint(err != nil)
		})
	}
	dec("GobDecode", func(m *big.Int) []byte { b, _ := m.GobEncode(); return b }, (*apd.BigInt).GobDecode, (*big.Int).GobDecode)
	dec("UnmarshalJSON", func(m *big.Int) []byte { b, _ := m.MarshalJSON(); return b }, (*apd.BigInt).UnmarshalJSON, (*big.Int).UnmarshalJSON)
	dec("UnmarshalText", func(m *big.Int) []byte { b, _ := m.MarshalText(); return b }, (*apd.BigInt).UnmarshalText, (*big.Int).UnmarshalText)

	rawdec := func(name string, inputs []string, isHex bool, fa func(z *apd.BigInt, b []byte) error, fm func(z *big.Int, b []byte) error) {
		get := func(s *plan.BigStep) []byte {
			t := inputs[int(uint64(s.N)%uint64(len(inputs)))]
			if isHex {
				return hexBytes(t)
			}
			return []byte(t)
		}
		bop(name, "z", "z", func(s *plan.BigStep, a *aArgs) string {
			in := get(s)
			err := fa(a.z, in)
			if err != nil {
				a.z.SetInt64(0)
			}
			return fmt.Sprint(err != nil, " ", string(in)) // input bytes are not the decoder's to change
		}, func(s *plan.BigStep, m *mArgs) string {
			in := get(s)
			err := fm(m.z, in)
			if err != nil {
				m.z.SetInt64(0)
			}
			return fmt.Sprint(err != nil, " ", string(in))
		})
	}
	rawdec("RawUnmarshalJSON", rawJSON, false, (*apd.BigInt).UnmarshalJSON, (*big.Int).UnmarshalJSON)
	rawdec("RawUnmarshalText", rawText, false, (*apd.BigInt).UnmarshalText, (*big.Int).UnmarshalText)
	rawdec("RawGobDecode", rawGob, true, (*apd.BigInt).GobDecode, (*big.Int).GobDecode)

	// streams
	bop("Fscan", "zx", "z", func(s *plan.BigStep, a *aArgs) string {
		rd := &faultyReader{data: []byte(scanText(a.x.MathBigInt(), s)), kind: s.F, k: s.FK}
		var n int
		var err error
		if s.N&1 == 0 {
			n, err = fmt.Fscan(rd, a.z)
		} else {
			n, err = fmt.Fscanf(rd, scanVerb(s), a.z)
		}
		if err != nil {
			a.z.SetInt64(0)
		}
		return fmt.Sprint(n, err != nil, rd.handed, rd.calls)
	}, func(s *plan.BigStep, m *mArgs) string {
		rd := &faultyReader{data: []byte(scanText(m.x, s)), kind: s.F, k: s.FK}
		var n int
		var err error
		if s.N&1 == 0 {
			n, err = fmt.Fscan(rd, m.z)
		} else {
			n, err = fmt.Fscanf(rd, scanVerb(s), m.z)
		}
		if err != nil {
			m.z.SetInt64(0)
		}
		return fmt.Sprint(n, err != nil, rd.handed, rd.calls)
	})
	ro("FormatState", "z", func(s *plan.BigStep, a *aArgs) string {
		st := &faultyState{kind: s.F, k: s.FK, width: int(s.K), flags: "+-# 0"[int(uint64(s.N)%5) : int(uint64(s.N)%5)+1]}
		a.z.Format(st, rune("dxXobsv"[int(uint64(s.N)%7)]))
		return fmt.Sprintf("%q %d %d", st.buf.String(), st.calls, st.failed)
	}, func(s *plan.BigStep, m *mArgs) string {
		st := &faultyState{kind: s.F, k: s.FK, width: int(s.K), flags: "+-# 0"[int(uint64(s.N)%5) : int(uint64(s.N)%5)+1]}
		m.z.Format(st, rune("dxXobsv"[int(uint64(s.N)%7)]))
		return fmt.Sprintf("%q %d %d", st.buf.String(), st.calls, st.failed)
	}).nilOK = "z"
}

func scanVerb(s *plan.BigStep) string {
	return []string{"%d", "%v", "%x", "%s", "%b", "%o", "%X", "%5d"}[int(uint64(s.K)%8)]
}

func scanText(v *big.Int, s *plan.BigStep) string {
	base := "%d"
	if s.N&1 == 1 {
		switch scanVerb(s) {
		case "%x", "%X":
			base = "%x"
		case "%b":
			base = "%b"
		case "%o":
			base = "%o"
		}
	}
	t := fmt.Sprintf(base, v)
	switch uint64(s.K>>3) % 8 {
	case 6:
		// leading zeros: with %v the scanner infers the base from the prefix
		if strings.HasPrefix(t, "-") {
			return "-0" + t[1:]
		}
		return "0" + t
	case 7:
		a := new(big.Int).Abs(v)
		sign := ""
		if v.Sign() < 0 {
			sign = "-"
		}
		return sign + []string{"0x%x", "0b%b", "0o%o", "0X%X"}[int(uint64(s.FK)%4)][:2] + fmt.Sprintf([]string{"%x", "%b", "%o", "%X"}[int(uint64(s.FK)%4)], a)
	case 0:
		return t
	case 1:
		return "  " + t + " tail"
	case 2:
		return t + "x9"
	case 3:
		return "+" + t
	case 4:
		return ""
	default:
		return t + "\n"
	}
}

// corrupt applies a stored-bytes fault: flip a bit, truncate ("torn"), extend.
func corrupt(b []byte, kind string, k int) []byte {
	out := append([]byte(nil), b...)
	switch kind {
	case "flip":
		if len(out) > 0 {
			i := k % (len(out) * 8)
			out[i/8] ^= 1 << uint(i%8)
		}
	case "trunc":
		if len(out) > 0 {
			out = out[:k%len(out)]
		}
	case "extend":
		out = append(out, byte(k), byte(k>>3), 0xff)
	case "empty":
		out = out[:0]
	}
	return out
}

// faultyReader is the io.Reader double: short reads, empty reads, an error or
// EOF after k bytes.
type faultyReader struct {
	data   []byte
	kind   string
	k      int
	handed int
	calls  int
}

var errInjected = errors.New("injected read error")

func (r *faultyReader) Read(p []byte) (int, error) {
	r.calls++
	if len(p) == 0 {
		return 0, nil
	}
	limit := len(r.data)
	switch r.kind {
	case "errafter":
		if r.handed >= r.k {
			return 0, errInjected
		}
		if r.k < limit {
			limit = r.k
		}
	case "eofafter":
		if r.k < limit {
			limit = r.k
		}
	case "zeroread":
		if r.calls%2 == 1 {
			return 0, nil
		}
	}
	if r.handed >= limit {
		return 0, io.EOF
	}
	n := limit - r.handed
	if n > len(p) {
		n = len(p)
	}
	if r.kind == "onebyte" || r.kind == "zeroread" || r.kind == "errafter" {
		n = 1
	}
	copy(p, r.data[r.handed:r.handed+n])
	r.handed += n
	return n, nil
}

// faultyState is the fmt.State double for BigInt.Format.
type faultyState struct {
	buf    bytes.Buffer
	kind   string
	k      int
	width  int
	flags  string
	calls  int
	failed int
}

func (s *faultyState) Write(b []byte) (int, error) {
	s.calls++
	switch s.kind {
	case "short":
		if s.buf.Len()+len(b) > s.k {
			n := s.k - s.buf.Len()
			if n < 0 {
				n = 0
			}
			s.buf.Write(b[:n])
			s.failed++
			return n, io.ErrShortWrite
		}
	case "fail":
		if s.buf.Len() >= s.k {
			s.failed++
			return 0, errInjected
		}
	}
	return s.buf.Write(b)
}
func (s *faultyState) Width() (int, bool)     { return s.width, s.width > 0 }
func (s *faultyState) Precision() (int, bool) { return 0, false }
func (s *faultyState) Flag(c int) bool        { return strings.IndexByte(s.flags, byte(c)) >= 0 }

// ---------------------------------------------------------------------------

var bigBoundary = func() []string {
	var out []string
	for _, n := range []uint{0, 1, 31, 32, 33, 62, 63, 64, 65, 126, 127, 128, 129, 191, 192, 256} {
		for d := int64(-2); d <= 2; d++ {
			v := new(big.Int).Add(two(n), big.NewInt(d))
			out = append(out, v.String(), new(big.Int).Neg(v).String())
		}
	}
	for _, k := range []int64{1, 2, 3, 6, 255} {
		v := new(big.Int).Lsh(big.NewInt(k), 64)
		out = append(out, v.String(), new(big.Int).Neg(v).String())
	}
	hi := new(big.Int).Sub(two(128), two(64))
	out = append(out, hi.String(), new(big.Int).Neg(hi).String())
	out = append(out, "0", "10", "-10", "1000000007", "-999999999999", strings.Repeat("9", 38), strings.Repeat("9", 39), "-"+strings.Repeat("9", 39))
	return out
}()

func genBigValue(r *plan.Rng) string {
	switch r.Intn(10) {
	case 0, 1, 2, 3:
		return bigBoundary[r.Intn(len(bigBoundary))]
	case 4, 5:
		s := randDigits(r, 1+r.Intn(19))
		if r.Chance(1, 3) {
			s = "-" + s
		}
		return s
	case 6, 7:
		s := randDigits(r, 20+r.Intn(25))
		if r.Chance(1, 3) {
			s = "-" + s
		}
		return s
	case 8:
		s := randDigits(r, 40+r.Intn(200))
		if r.Chance(1, 3) {
			s = "-" + s
		}
		return s
	default:
		// thousands of bits
		s := randDigits(r, 300+r.Intn(900))
		if r.Chance(1, 3) {
			s = "-" + s
		}
		return s
	}
}

var bigArith = []string{"Add", "Sub", "Mul", "Quo", "Rem", "Div", "Mod", "And", "AndNot", "Or", "Xor"}
var bigUnary = []string{"Abs", "Neg", "Not", "Set", "Sqrt"}
var bigRead = []string{"Cmp", "Props", "Conv", "FillBytes", "Text", "Encode", "Sprintf", "ProbablyPrime"}
var bigSet = []string{"SetInt64", "SetUint64", "NewBigInt", "SetString", "SetBytes", "SetBits", "SetMathBigInt"}
var bigMisc = []string{"Lsh", "Rsh", "SetBit", "QuoRem", "DivMod", "Exp", "ExpSmall", "ModInverse", "ModSqrt", "GCD", "Binomial", "MulRange", "Rand"}
var bigDecode = []string{"GobDecode", "UnmarshalJSON", "UnmarshalText", "RawUnmarshalJSON", "RawUnmarshalText", "RawGobDecode"}
var bigStream = []string{"Fscan", "FormatState"}

var setStrings = []string{"0", "-0", "+5", "12345678901234567890", "-340282366920938463463374607431768211456", "0x1f", "0b101", "0o17", "1_000", "ff", "zz", "", "-", "9223372036854775807", "9223372036854775808", "-9223372036854775808", "-9223372036854775809", "18446744073709551615", "18446744073709551616", " 1", "1 ", "1e3", "0X1F", "_1", "1__0", "0755", "08", "-017", "00", "007", "0_7", "0777777777777777777777", "01777777777777777777777", "-0x8000000000000000", "0b", "0x"}

// GenBig draws a run of the BigInt machine. mode: "" | "alias" | "faults".
func GenBig(seed, run uint64, tier, mode string) *plan.Plan {
	r := plan.NewRng(plan.Derive(seed, run, 1616))
	prop := "C16"
	if mode == "alias" {
		prop = "C05"
	}
	p := &plan.Plan{V: 1, Property: prop, Workload: "big", Mode: mode, Seed: seed, Run: run}
	nregs := r.Range(4, 6)
	for i := 0; i < nregs; i++ {
		p.BigRegs = append(p.BigRegs, plan.BigReg{V: genBigValue(r), Heap: r.Chance(1, 5)})
	}
	n := r.Range(5, 120)
	if r.Chance(1, 8) {
		n = r.Range(120, 400)
	}
	aliasBias := 2
	if mode == "alias" {
		aliasBias = 8
	}
	for i := 0; i < n; i++ {
		st := plan.BigStep{Z: r.Intn(nregs), X: r.Intn(nregs), Y: r.Intn(nregs), M: r.Intn(nregs), W: r.Intn(nregs)}
		if r.Chance(aliasBias, 16) {
			// force an alias pattern
			switch r.Intn(5) {
			case 0:
				st.X = st.Z
			case 1:
				st.Y = st.Z
			case 2:
				st.Y = st.X
			case 3:
				st.X, st.Y = st.Z, st.Z
			case 4:
				st.M = st.Y
			}
		}
		k := r.Intn(100)
		if mode == "faults" {
			k = 88 + r.Intn(12)
		}
		switch {
		case k < 40:
			st.Op = pick(r, bigArith)
		case k < 52:
			st.Op = pick(r, bigUnary)
		case k < 64:
			st.Op = pick(r, bigRead)
			st.N = int64(r.Intn(70))
			switch st.Op {
			case "Text":
				st.N = int64(r.Range(2, 62))
				if r.Chance(1, 12) {
					st.Z = -1
				}
			case "Encode", "Sprintf":
				if r.Chance(1, 12) {
					st.Z = -1
				}
			case "FillBytes":
				st.N = int64(r.Intn(40))
				if r.Chance(1, 4) {
					st.N = int64(r.Intn(600))
				}
			case "ProbablyPrime":
				st.N = int64(r.Intn(4))
			case "Props":
				st.N = int64(r.Intn(300))
			}
		case k < 74:
			st.Op = pick(r, bigSet)
			switch st.Op {
			case "SetString":
				st.N = []int64{10, 10, 10, 0, 16, 2, 36, 62, 8}[r.Intn(9)]
				if r.Bool() {
					st.S = setStrings[r.Intn(len(setStrings))]
				} else {
					st.S = genBigValue(r)
				}
			case "SetBytes":
				st.S = fmt.Sprintf("%x", []byte(randDigits(r, r.Intn(40))))
				if r.Chance(1, 4) {
					st.S = "00000000" + st.S
				}
			case "SetBits":
				nw := r.Intn(5)
				for j := 0; j < nw; j++ {
					w := r.U64()
					if r.Chance(1, 3) {
						w = 0
					}
					st.S += fmt.Sprintf("%016x", w)
				}
			default:
				st.N = int64(r.U64() >> uint(r.Intn(64)))
				if r.Chance(1, 3) {
					st.N = -st.N
				}
				if r.Chance(1, 8) {
					st.N = []int64{0, 1, -1, 9223372036854775807, -9223372036854775808}[r.Intn(5)]
				}
			}
		case k < 88:
			st.Op = pick(r, bigMisc)
			switch st.Op {
			case "Lsh", "Rsh":
				st.N = int64(r.Intn(200))
				if r.Chance(1, 5) {
					st.N = []int64{0, 1, 63, 64, 65, 127, 128, 129}[r.Intn(8)]
				}
			case "SetBit":
				st.N = int64(r.Intn(260))
				st.K = int64(r.Intn(2))
			case "QuoRem", "DivMod":
				// two outputs are never the same register
				for st.M == st.Z {
					st.M = r.Intn(nregs)
				}
			case "Exp":
				if r.Chance(1, 3) {
					st.M = -1
				}
			case "ExpSmall":
				st.N = int64(r.Intn(40))
			case "ModSqrt":
				st.N = int64(r.Intn(len(fixedPrimes)))
			case "GCD":
				// outputs z, x, y pairwise distinct (x, y may be nil)
				st.X, st.Y = (st.Z+1)%nregs, (st.Z+2)%nregs
				if r.Chance(1, 4) {
					st.X = -1
				}
				if r.Chance(1, 4) {
					st.Y = -1
				}
			case "Binomial":
				st.N = int64(r.Intn(120))
				st.K = int64(r.Intn(130))
				if r.Chance(1, 4) {
					// zero and negative arguments
					st.N = int64(r.Range(-8, 3))
					st.K = int64(r.Range(-4, 6))
				}
			case "MulRange":
				st.N = int64(r.Range(-30, 60))
				st.K = st.N + int64(r.Range(-3, 60))
			case "Rand":
				st.N = int64(r.U64() >> 1)
			}
		case k < 94:
			st.Op = pick(r, bigDecode)
			st.F = []string{"", "", "flip", "trunc", "extend", "empty"}[r.Intn(6)]
			st.FK = r.Intn(4096)
			if strings.HasPrefix(st.Op, "Raw") {
				st.F = ""
				st.N = int64(r.Intn(64))
			}
		default:
			st.Op = pick(r, bigStream)
			st.N = int64(r.Intn(64))
			st.K = int64(r.Intn(64))
			if st.Op == "Fscan" {
				st.F = []string{"", "onebyte", "zeroread", "errafter", "eofafter"}[r.Intn(5)]
				st.FK = r.Intn(50)
			} else {
				st.F = []string{"", "short", "fail"}[r.Intn(3)]
				st.FK = r.Intn(40)
				st.K = int64(r.Intn(30))
				if r.Chance(1, 12) {
					st.Z = -1
				}
			}
		}
		p.BigSteps = append(p.BigSteps, st)
	}
	return p
}

// bigObs is everything observable of one register.
func bigObsA(z *apd.BigInt) (s string) {
	defer func() {
		// a register left in a state that cannot even be printed is reported
		// like any other disagreement with the mirror
		if r := recover(); r != nil {
			switch r.(type) {
			case hangSentinel, deadlockSentinel:
				panic(r)
			}
			s = fmt.Sprintf("<unobservable: reading the register panics: %v>", r)
		}
	}()
	var zero apd.BigInt
	s = fmt.Sprintf("%s sign=%d bitlen=%d cmp0=%d i64=%v u64=%v tz=%d bytes=%x", z.String(), z.Sign(), z.BitLen(), z.Cmp(&zero), z.IsInt64(), z.IsUint64(), z.TrailingZeroBits(), z.Bytes())
	if z.IsInt64() {
		s += fmt.Sprint(" int64=", z.Int64())
	}
	if z.IsUint64() {
		s += fmt.Sprint(" uint64=", z.Uint64())
	}
	return s
}

func bigObsM(z *big.Int) string {
	zero := new(big.Int)
	s := fmt.Sprintf("%s sign=%d bitlen=%d cmp0=%d i64=%v u64=%v tz=%d bytes=%x", z.String(), z.Sign(), z.BitLen(), z.Cmp(zero), z.IsInt64(), z.IsUint64(), z.TrailingZeroBits(), z.Bytes())
	if z.IsInt64() {
		s += fmt.Sprint(" int64=", z.Int64())
	}
	if z.IsUint64() {
		s += fmt.Sprint(" uint64=", z.Uint64())
	}
	return s
}

func firstDiffField(a, b string) string {
	fa, fb := strings.Fields(a), strings.Fields(b)
	for i := 0; i < len(fa) && i < len(fb); i++ {
		if fa[i] != fb[i] {
			if j := strings.IndexByte(fa[i], '='); j > 0 {
				return fa[i][:j]
			}
			return "text"
		}
	}
	return "fields"
}

func callRecover(f func() string) (out string, pan string) {
	defer func() {
		if r := recover(); r != nil {
			if _, ok := r.(hangSentinel); ok {
				markUnwound()
				pan = "hang"
				return
			}
			if _, ok := r.(deadlockSentinel); ok {
				markUnwound()
				pan = "deadlock"
				return
			}
			pan = fmt.Sprint(r)
			if i := strings.IndexByte(pan, '\n'); i >= 0 {
				pan = pan[:i]
			}
			if pan == "" {
				pan = "panic"
			}
		}
	}()
	return f(), ""
}

type reprState struct {
	inline, sentinel bool
	words            [4]big.Word
	heapPtr, heapDat unsafe.Pointer
	heap             []big.Word
	heapNeg          bool
}

func reprOf(z *apd.BigInt) reprState {
	r := apd.VerifRepr(z)
	return reprState{inline: r.Inline, sentinel: r.Sentinel, words: r.Words, heapPtr: r.HeapPtr, heapDat: r.HeapData, heap: append([]big.Word(nil), r.Heap...), heapNeg: r.HeapNeg}
}

func (a reprState) same(b reprState) bool {
	if a.inline != b.inline || a.sentinel != b.sentinel || a.words != b.words || a.heapPtr != b.heapPtr || a.heapDat != b.heapDat || a.heapNeg != b.heapNeg || len(a.heap) != len(b.heap) {
		return false
	}
	for i := range a.heap {
		if a.heap[i] != b.heap[i] {
			return false
		}
	}
	return true
}

func (a reprState) class() string {
	switch {
	case a.inline && a.sentinel:
		return "inline-"
	case a.inline:
		return "inline+"
	}
	return "heap"
}

// RunBig executes one run of the BigInt machine.
func RunBig(p *plan.Plan) *plan.Result {
	res := &plan.Result{Run: p.Run, Stats: map[string]uint64{}}
	st := res.Stats
	n := len(p.BigRegs)
	regs := make([]*apd.BigInt, n)
	mir := make([]*big.Int, n)
	store := make([]apd.BigInt, n) // registers live side by side, like fields of a struct
	for i, br := range p.BigRegs {
		regs[i] = &store[i]
		SetBig(regs[i], br.V, br.Heap)
		mir[i] = bigFromText(br.V)
	}
	known := apd.VerifRepr(regs[0]).Known
	seen := map[string]bool{}
	addViol := func(v plan.Violation) {
		id := v.Class + "|" + v.Key
		if seen[id] || len(res.Violations) >= 8 {
			return
		}
		seen[id] = true
		res.Violations = append(res.Violations, v)
	}
	resync := func() {
		for i := range regs {
			// fresh storage: a register that shares storage with another one
			// (because of the very fault just reported) must stop doing so
			store[i] = apd.BigInt{}
			regs[i].SetString(mir[i].String(), 10)
		}
	}
	pick := func(i int) (*apd.BigInt, *big.Int) {
		if i < 0 {
			return nil, nil
		}
		return regs[i%n], mir[i%n]
	}
	setMode(modeCount)
	defer setMode(modeOff)
	var digest uint64
	nontrivial := false
	before := make([]reprState, n)
	for si := range p.BigSteps {
		s := &p.BigSteps[si]
		op := bigOps[s.Op]
		if op == nil {
			continue
		}
		idx := map[byte]int{'z': s.Z, 'x': s.X, 'y': s.Y, 'm': s.M, 'w': s.W}
		var a aArgs
		var m mArgs
		bad := false
		for _, pos := range []byte(op.uses) {
			i := idx[pos]
			if i < 0 && !strings.ContainsRune(op.nilOK, rune(pos)) {
				i = 0
			}
			ra, rm := pick(i)
			switch pos {
			case 'z':
				a.z, m.z = ra, rm
			case 'x':
				a.x, m.x = ra, rm
			case 'y':
				a.y, m.y = ra, rm
			case 'm':
				a.m, m.m = ra, rm
			case 'w':
				a.w, m.w = ra, rm
			}
			if i < 0 {
				idx[pos] = -1
			} else {
				idx[pos] = i % n
			}
		}
		// nil receiver only for read-only methods that document it
		if a.z == nil && op.outs != "" {
			bad = true
		}
		if bad || (op.guard != nil && !op.guard(s, &m)) {
			st["skipped_guard"]++
			continue
		}
		if op.guard != nil {
			// the cost bounds must hold for the values the BigInt machine really
			// holds as well (they differ from the mirror only after a fault)
			ok := true
			for _, x := range []*apd.BigInt{a.z, a.x, a.y, a.m, a.w} {
				if x != nil && x.BitLen() > 8192 {
					ok = false
				}
			}
			if !ok {
				st["skipped_guard"]++
				resync()
				continue
			}
		}
		// alias pattern of this step
		pat := ""
		used := []byte(op.uses)
		for i := 0; i < len(used); i++ {
			for j := i + 1; j < len(used); j++ {
				if idx[used[i]] >= 0 && idx[used[i]] == idx[used[j]] {
					pat += string(used[i]) + "==" + string(used[j]) + ","
				}
			}
		}
		if pat == "" {
			pat = "distinct"
		}
		// two outputs of one call are never the same register
		outs := []byte(op.outs)
		dup := false
		for i := 0; i < len(outs); i++ {
			for j := i + 1; j < len(outs); j++ {
				if idx[outs[i]] >= 0 && idx[outs[i]] == idx[outs[j]] {
					dup = true
				}
			}
		}
		if dup {
			st["skipped_guard"]++
			continue
		}
		// reference on copies (every position its own object)
		var c mArgs
		cp := func(x *big.Int) *big.Int {
			if x == nil {
				return nil
			}
			return new(big.Int).Set(x)
		}
		c.z, c.x, c.y, c.m, c.w = cp(m.z), cp(m.x), cp(m.y), cp(m.m), cp(m.w)
		pre := mArgs{cp(m.z), cp(m.x), cp(m.y), cp(m.m), cp(m.w)}
		outC, panC := callRecover(func() string { return op.ref(s, &c) })
		// reference with the step's alias pattern
		outM, panM := callRecover(func() string { return op.ref(s, &m) })
		consistent := outC == outM && (panC != "") == (panM != "")
		if consistent && panM == "" {
			for _, pos := range outs {
				var am, cm *big.Int
				switch pos {
				case 'z':
					am, cm = m.z, c.z
				case 'x':
					am, cm = m.x, c.x
				case 'y':
					am, cm = m.y, c.y
				case 'm':
					am, cm = m.m, c.m
				}
				if am != nil && cm != nil && am.Cmp(cm) != 0 {
					consistent = false
				}
			}
		}
		// raw observation of the reference before any normalisation
		rawObs := make([]string, n)
		for i := range mir {
			rawObs[i] = bigObsM(mir[i])
		}
		// a reference that is internally inconsistent (math/big accepts a
		// corrupted gob encoding as a negative zero) is normalised
		for i := range mir {
			if mir[i].Sign() == 0 && mir[i].Cmp(new(big.Int)) != 0 {
				mir[i].SetInt64(0)
				consistent = false
				st["reference_inconsistent"]++
			}
		}
		// the real machine
		for i := range regs {
			before[i] = reprOf(regs[i])
		}
		beginOp(50_000_000)
		outA, panA := callRecover(func() string { return op.run(s, &a) })
		st["steps"] += opSteps()
		st["ops"]++
		st["method_"+s.Op]++
		if s.F != "" {
			st["fault_"+s.Op+"_"+s.F]++
		}
		if !consistent {
			st["reference_undefined"]++
			// The reference is undefined for this step (math/big itself is not
			// alias-consistent here, or is internally inconsistent). BigInt is
			// held only to the property's explicit clause — zero is never
			// negative — and even that only where it does not simply reproduce
			// what math/big itself observably does.
			var zero apd.BigInt
			for i := range regs {
				if regs[i].String() == "0" && (regs[i].Sign() != 0 || regs[i].Cmp(&zero) != 0) && bigObsA(regs[i]) != rawObs[i] {
					addViol(plan.Violation{Property: "C16", Class: "C16/negative-zero/" + s.Op, Key: "negzero", Step: si,
						Detail: fmt.Sprintf("step %d %s(%s) fault=%s/%d: register %d is zero with Sign()=%d Cmp(0)=%d (math/big itself: %s)", si, s.Op, pat, s.F, s.FK, i, regs[i].Sign(), regs[i].Cmp(&zero), rawObs[i])})
				}
			}
			resync()
			continue
		}
		desc := func() string {
			return fmt.Sprintf("step %d %s z=r%d x=r%d y=r%d m=r%d w=r%d n=%d k=%d s=%q fault=%s/%d alias=%s", si, s.Op, s.Z, s.X, s.Y, s.M, s.W, s.N, s.K, s.S, s.F, s.FK, pat)
		}
		report := func(aspect, detail string) {
			v := plan.Violation{Property: "C16", Class: "C16/" + s.Op + "/" + aspect, Key: aspect, Step: si, Detail: desc() + "\n  " + detail}
			addViol(v)
			if pat != "distinct" {
				// pure aliasing fault? run the same method on distinct, fresh BigInt
				// registers holding the pre-step values and compare with the
				// reference that ran on distinct copies
				var d aArgs
				fresh := func(mx *big.Int) *apd.BigInt {
					if mx == nil {
						return nil
					}
					return new(apd.BigInt).SetMathBigInt(mx)
				}
				d.z, d.x, d.y, d.m, d.w = fresh(pre.z), fresh(pre.x), fresh(pre.y), fresh(pre.m), fresh(pre.w)
				outD, panD := callRecover(func() string { return op.run(s, &d) })
				agree := outD == outC && (panD != "") == (panC != "")
				if agree && panD == "" {
					for _, pos := range outs {
						var da *apd.BigInt
						var cm *big.Int
						switch pos {
						case 'z':
							da, cm = d.z, c.z
						case 'x':
							da, cm = d.x, c.x
						case 'y':
							da, cm = d.y, c.y
						case 'm':
							da, cm = d.m, c.m
						}
						if da != nil && cm != nil && bigObsA(da) != bigObsM(cm) {
							agree = false
						}
					}
				}
				if agree {
					v5 := v
					v5.Property = "C05"
					v5.Class = "C05/bigint-alias/" + s.Op
					v5.Key = pat
					v5.Detail += "\n  the same call on distinct registers agrees with math/big: the fault is in storage sharing"
					addViol(v5)
				}
			}
		}
		if panA == "hang" || panA == "deadlock" {
			if panA == "deadlock" {
				report("deadlock", "the method waits for a lock that nothing can release")
			}
			break // abandoned call: no further verdicts from this run
		}
		if (panA != "") != (panM != "") {
			report("panic", fmt.Sprintf("BigInt panic=%q, math/big panic=%q", panA, panM))
			resync()
			continue
		}
		if panM != "" {
			st["panic_both"]++
			resync()
			continue
		}
		if outA != outM {
			report("return", fmt.Sprintf("BigInt returned %q, math/big returned %q", trim200(outA), trim200(outM)))
		}
		failed := false
		for i := range regs {
			oa, om := bigObsA(regs[i]), bigObsM(mir[i])
			if oa != om {
				aspect := firstDiffField(oa, om)
				role := "bystander"
				for _, pos := range outs {
					if idx[pos] == i {
						role = "output " + string(pos)
					}
				}
				if mir[i].Sign() == 0 && regs[i].String() == "0" {
					aspect = "negzero"
				}
				report(aspect, fmt.Sprintf("register r%d (%s):\n    BigInt:   %s\n    math/big: %s", i, role, trim200(oa), trim200(om)))
				failed = true
			}
		}
		// operands and bystanders: representation untouched
		written := map[int]bool{}
		for _, pos := range outs {
			if idx[pos] >= 0 {
				written[idx[pos]] = true
			}
		}
		trans := false
		for i := range regs {
			now := reprOf(regs[i])
			if written[i] {
				if now.class() != before[i].class() {
					st["repr_"+before[i].class()+"_to_"+now.class()]++
					trans = true
				}
				continue
			}
			if !now.same(before[i]) {
				// The register is not an output of the call. Its *value* is checked
				// against the mirror above ("leaves its operands unchanged"); a
				// change of representation alone (e.g. an operand compacted in
				// place) is value-preserving for a single caller and is only
				// counted here — it is a write to an operand, which C06 (bit-for-bit)
				// and C18 (shared operands) decide.
				st["operand_representation_changed"]++
			}
		}
		if trans || s.F != "" {
			nontrivial = true
		}
		// representation facts (counted, not judged: sharing storage between
		// registers is invisible as long as values stay right, and values are
		// what the mirror comparison above decides)
		if known {
			lo := uintptr(unsafe.Pointer(&store[0]))
			hi := lo + uintptr(n)*unsafe.Sizeof(store[0])
			for i := range regs {
				ri := reprOf(regs[i])
				if ri.inline {
					continue
				}
				if hp := uintptr(ri.heapDat); hp >= lo && hp < hi {
					st["heap_slice_inside_register_array"]++
				}
				for j := i + 1; j < n; j++ {
					rj := reprOf(regs[j])
					if !rj.inline && (rj.heapPtr == ri.heapPtr || (ri.heapDat != nil && rj.heapDat == ri.heapDat)) {
						st["registers_sharing_heap_storage"]++
					}
				}
			}
		}
		if failed {
			resync()
		}
		digest = plan.Mix(digest ^ hashString(outA))
	}
	for i := range regs {
		digest = plan.Mix(digest ^ hashString(regs[i].String()))
	}
	res.Digest = fmt.Sprintf("%016x", digest)
	var h uint64
	for _, s := range p.BigSteps {
		h = plan.Mix(h ^ hashString(s.Op+s.S+s.F) ^ uint64(s.Z)<<3 ^ uint64(s.X)<<7 ^ uint64(s.Y)<<11 ^ uint64(s.N)<<17)
	}
	if globalSnap != nil {
		if d := globalSnap.Check(); d != "" {
			st["globals_changed"]++
		}
	}
	res.Sig = fmt.Sprintf("%016x", h)
	res.Nontrivial = nontrivial
	return res
}

func trim200(s string) string {
	if len(s) > 300 {
		return s[:300] + "..."
	}
	return s
}
