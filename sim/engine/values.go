package engine

import (
	"fmt"
	"math/big"
	"strings"

	"apdsim/plan"

	apd "github.com/cockroachdb/apd/v3"
)

// hugeText is larger than 2^128 so that a BigInt that held it is in heap form.
const hugeText = "1000000000000000000000000000000000000000000000000000000000007"

// SetBigHeap sets z to the value v (decimal text) leaving it in heap
// representation whatever the magnitude of v: the register first holds a huge
// value and is then reduced in place, which is how a small value comes to live
// in heap form in real programs.
func SetBigHeap(z *apd.BigInt, v string) {
	var want, huge, delta apd.BigInt
	if _, ok := want.SetString(v, 10); !ok {
		panic("bad big text " + v)
	}
	huge.SetString(hugeText, 10)
	delta.Sub(&huge, &want)
	z.SetString(hugeText, 10)
	z.Sub(z, &delta)
}

func SetBig(z *apd.BigInt, v string, heap bool) {
	if heap {
		SetBigHeap(z, v)
		return
	}
	if _, ok := z.SetString(v, 10); !ok {
		panic("bad big text " + v)
	}
}

// BuildDec makes a fresh Decimal from its description.
func BuildDec(s plan.Dec) *apd.Decimal {
	d := new(apd.Decimal)
	FillDec(d, s)
	return d
}

func FillDec(d *apd.Decimal, s plan.Dec) {
	*d = apd.Decimal{}
	d.Form = apd.Form(s.Form)
	d.Negative = s.Neg
	d.Exponent = s.Exp
	c := s.Coeff
	if c == "" {
		c = "0"
	}
	SetBig(&d.Coeff, c, s.Heap)
}

// DescribeDec is the inverse of BuildDec.
func DescribeDec(d *apd.Decimal) plan.Dec {
	r := apd.VerifRepr(&d.Coeff)
	txt := bigText(&d.Coeff)
	return plan.Dec{Form: int(d.Form), Neg: d.Negative, Coeff: txt, Exp: d.Exponent, Heap: r.Known && !r.Inline}
}

// bigText renders the coefficient; a negative coefficient (malformed) is kept
// visible.
func bigText(b *apd.BigInt) string {
	return b.String()
}

var rounders = map[string]apd.Rounder{
	"":          apd.Rounder(""),
	"down":      apd.RoundDown,
	"half_up":   apd.RoundHalfUp,
	"half_even": apd.RoundHalfEven,
	"ceiling":   apd.RoundCeiling,
	"floor":     apd.RoundFloor,
	"half_down": apd.RoundHalfDown,
	"up":        apd.RoundUp,
	"05up":      apd.Round05Up,
}

var RounderNames = []string{"", "down", "half_up", "half_even", "ceiling", "floor", "half_down", "up", "05up"}

func BuildCtx(c plan.Ctx) *apd.Context {
	if c.Base {
		return &apd.BaseContext
	}
	return &apd.Context{
		Precision:   c.P,
		MaxExponent: c.Emax,
		MinExponent: c.Emin,
		Traps:       apd.Condition(c.Traps),
		Rounding:    rounders[c.Round],
	}
}

// DecVal is the observable value of a Decimal as a string, including the sign
// of the coefficient (so that a negative or negative-zero coefficient shows).
func DecVal(d *apd.Decimal) (out string) {
	if d == nil {
		return "<nil>"
	}
	defer func() {
		if r := recover(); r != nil {
			switch r.(type) {
			case hangSentinel, deadlockSentinel:
				panic(r)
			}
			out = fmt.Sprintf("<unobservable: reading the Decimal panics: %v>", r)
		}
	}()
	var sb strings.Builder
	fmt.Fprintf(&sb, "%d|%v|%d|%s|%d", int(d.Form), d.Negative, d.Exponent, d.Coeff.String(), d.Coeff.Sign())
	return sb.String()
}

// WellFormed reports whether d has a valid form and a non-negative
// coefficient whose Sign agrees with its text.
func WellFormed(d *apd.Decimal) string {
	if d.Form < apd.Finite || d.Form > apd.NaN {
		return fmt.Sprintf("invalid Form %d", d.Form)
	}
	s := d.Coeff.Sign()
	if s < 0 {
		return "negative coefficient " + d.Coeff.String()
	}
	if (s == 0) != (d.Coeff.String() == "0") {
		return fmt.Sprintf("coefficient sign %d disagrees with text %s", s, d.Coeff.String())
	}
	return ""
}

func bigFromText(s string) *big.Int {
	z, ok := new(big.Int).SetString(s, 10)
	if !ok {
		panic("bad big text " + s)
	}
	return z
}
