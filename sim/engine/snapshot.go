package engine

import (
	"fmt"
	"math/big"
	"unsafe"

	apd "github.com/cockroachdb/apd/v3"
)

// Raw snapshots: the exact memory of a Decimal (struct bytes, which include the
// inline words and the heap pointer) plus the heap words it reaches. They are
// taken and compared inside //go:norace functions so that the monitor neither
// creates happens-before edges between tasks nor is itself reported by the
// race detector.

const decSize = unsafe.Sizeof(apd.Decimal{})
const ctxSize = unsafe.Sizeof(apd.Context{})

type RawDec struct {
	Bytes    [decSize]byte
	Heap     []big.Word
	HeapNeg  bool
	HeapData unsafe.Pointer
	HeapLen  int
}

//go:norace
func SnapDec(d *apd.Decimal, into *RawDec) {
	into.Bytes = *(*[decSize]byte)(unsafe.Pointer(d))
	r := apd.VerifRepr(&d.Coeff)
	into.Heap = append(into.Heap[:0], r.Heap...)
	into.HeapNeg = r.HeapNeg
	into.HeapData = r.HeapData
	into.HeapLen = len(r.Heap)
}

// SameDec compares the current memory of d with a snapshot, without
// allocating.
//
//go:norace
func SameDec(d *apd.Decimal, snap *RawDec) bool {
	if *(*[decSize]byte)(unsafe.Pointer(d)) != snap.Bytes {
		return false
	}
	r := apd.VerifRepr(&d.Coeff)
	if len(r.Heap) != snap.HeapLen || r.HeapNeg != snap.HeapNeg || r.HeapData != snap.HeapData {
		return false
	}
	for i := range r.Heap {
		if r.Heap[i] != snap.Heap[i] {
			return false
		}
	}
	return true
}

// DiffDec explains a difference (called outside the hot path).
func DiffDec(d *apd.Decimal, snap *RawDec) string {
	var cur RawDec
	SnapDec(d, &cur)
	if cur.Bytes != snap.Bytes {
		return fmt.Sprintf("struct bytes %x -> %x", snap.Bytes, cur.Bytes)
	}
	if cur.HeapLen != snap.HeapLen || cur.HeapNeg != snap.HeapNeg {
		return fmt.Sprintf("heap len/neg %d/%v -> %d/%v", snap.HeapLen, snap.HeapNeg, cur.HeapLen, cur.HeapNeg)
	}
	if cur.HeapData != snap.HeapData {
		return "heap backing array replaced"
	}
	return fmt.Sprintf("heap words %v -> %v", snap.Heap, cur.Heap)
}

type RawCtx [ctxSize]byte

//go:norace
func SnapCtx(c *apd.Context) RawCtx { return *(*RawCtx)(unsafe.Pointer(c)) }

//go:norace
func SameCtx(c *apd.Context, s *RawCtx) bool { return *(*RawCtx)(unsafe.Pointer(c)) == *s }

// extent is a region of memory that belongs to package-level state.
type extent struct {
	p unsafe.Pointer
	n uintptr
}

// hashExtents hashes raw memory (FNV-1a, 8 bytes at a time where possible).
//
//go:norace
func hashExtents(ex []extent) uint64 {
	h := uint64(1469598103934665603)
	for _, e := range ex {
		p := e.p
		n := e.n
		for n >= 8 {
			h ^= *(*uint64)(p)
			h *= 1099511628211
			p = unsafe.Add(p, 8)
			n -= 8
		}
		for n > 0 {
			h ^= uint64(*(*byte)(p))
			h *= 1099511628211
			p = unsafe.Add(p, 1)
			n--
		}
	}
	return h
}
