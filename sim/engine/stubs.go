package engine

import "apdsim/plan"

func GenReg(seed, run uint64, tier, mode string) *plan.Plan { panic("todo") }
func RunReg(p *plan.Plan) *plan.Result                      { panic("todo") }
func GenTrap(seed, run uint64, tier string) *plan.Plan      { panic("todo") }
func RunTrap(p *plan.Plan) *plan.Result                     { panic("todo") }
func GenLatch(seed, run uint64, tier string) *plan.Plan     { panic("todo") }
func RunLatch(p *plan.Plan) *plan.Result                    { panic("todo") }
func GenBig(seed, run uint64, tier, mode string) *plan.Plan { panic("todo") }
func RunBig(p *plan.Plan) *plan.Result                      { panic("todo") }
