package engine

import (
	"fmt"
	"strings"
	"time"

	"apdsim/plan"

	apd "github.com/cockroachdb/apd/v3"
)

// Now reads the wall clock. It is used only by the worker loop to stop
// starting new runs when the batch's wall-clock cap is reached; nothing inside
// a run depends on it.
func Now() int64 { return time.Now().Unix() }

// procStats accumulate over a worker process.
var procStats = map[string]uint64{}

func addStat(k string, v uint64) { procStats[k] += v }

func ProcessStats() map[string]uint64 {
	procStats["yield_sites"] = uint64(len(apd.VerifSites))
	procStats["go_statements_in_tree"] = uint64(apd.VerifGoStmts)
	var bits uint64
	for _, b := range sPairBits {
		for ; b != 0; b &= b - 1 {
			bits++
		}
	}
	procStats["site_pairs_this_process"] = bits
	if globalSnap != nil {
		procStats["package_vars"] = uint64(globalSnap.NumVars())
	}
	return procStats
}

// Generate builds the plan for (workload, mode, seed, run).
func Generate(wl, mode string, seed, run uint64, tier string) *plan.Plan {
	switch wl {
	case "c18":
		return GenC18(seed, run, tier, mode)
	case "reg":
		return GenReg(seed, run, tier, mode)
	case "trap":
		return GenTrap(seed, run, tier)
	case "latch":
		return GenLatch(seed, run, tier)
	case "big":
		return GenBig(seed, run, tier, mode)
	}
	panic("unknown workload " + wl)
}

// RunPlan executes a plan (after its prelude, if any) and returns its result.
func RunPlan(p *plan.Plan, keepLog bool) *plan.Result {
	for _, ref := range p.Prelude {
		q := Generate(ref.Workload, ref.Mode, ref.Seed, ref.Run, ref.Tier)
		q.Prelude = nil
		RunPlan(q, false)
	}
	var res *plan.Result
	switch p.Workload {
	case "c18":
		res, _ = RunC18(p, keepLog)
	case "reg":
		res = RunReg(p)
	case "trap":
		res = RunTrap(p)
	case "latch":
		res = RunLatch(p)
	case "big":
		res = RunBig(p)
	default:
		panic("unknown workload " + p.Workload)
	}
	if takeUnwound() {
		res.Stats["process_unwound"] = 1
	}
	for k, v := range res.Stats {
		addStat(k, v)
	}
	return res
}

func GenAndRun(wl, mode string, seed, run uint64, tier string, keepLog bool) (*plan.Plan, *plan.Result) {
	p := Generate(wl, mode, seed, run, tier)
	res := RunPlan(p, keepLog)
	return p, res
}

// Materialise returns the complete plan of a run, including parts that are
// derived during execution (the C18 schedule needs the solo step counts).
func Materialise(wl, mode string, seed, run uint64, tier string) *plan.Plan {
	p := Generate(wl, mode, seed, run, tier)
	if wl == "c18" {
		materialiseC18(p)
	}
	return p
}

func EventLog() []string {
	out := make([]string, 0, len(sEvLog))
	for _, e := range sEvLog {
		site := "?"
		if e.Site < 0 {
			site = "lock-wait"
		} else if int(e.Site) < len(apd.VerifSites) {
			s := apd.VerifSites[e.Site]
			site = fmt.Sprintf("%s:%d", s.File, s.Line)
		}
		out = append(out, fmt.Sprintf("t%d@%d %s -> t%d clock=%d", e.Task, e.At, site, e.To, e.Clock))
	}
	return out
}

// SamplePlan gives a compact view of a plan for the evidence file.
func SamplePlan(p *plan.Plan) interface{} {
	q := p.Clone()
	if q.Schedule != nil && len(q.Schedule.Preempt) > 6 {
		n := len(q.Schedule.Preempt)
		q.Schedule.Preempt = q.Schedule.Preempt[:6]
		q.Detail = fmt.Sprintf("schedule truncated: %d preemptions in total", n)
	}
	for i := range q.Tasks {
		if len(q.Tasks[i].Steps) > 5 {
			q.Tasks[i].Steps = q.Tasks[i].Steps[:5]
		}
	}
	if len(q.Tasks) > 2 {
		q.Tasks = q.Tasks[:2]
	}
	if len(q.BigSteps) > 8 {
		q.BigSteps = q.BigSteps[:8]
	}
	return q
}

// Poisoned reports whether a run found the process-wide state of the package
// under test modified; such a process must not execute further runs.
func Poisoned(res *plan.Result) bool {
	if res.Stats["globals_changed"] > 0 || res.Stats["process_unwound"] > 0 {
		return true
	}
	for _, v := range res.Violations {
		if strings.Contains(v.Class, "globals-modified") {
			return true
		}
	}
	return false
}
