package engine

import (
	"fmt"
	"strings"

	"apdsim/plan"

	apd "github.com/cockroachdb/apd/v3"
)

// C03, workload A: a trap set is apd's own fault-injection mechanism. The
// same call is executed fault-free (Traps = 0) and under the planned trap set;
// under the fault the call may fail, it may never return wrong data, and it
// must come back within the step budget.

const sysFlags = apd.SystemOverflow | apd.SystemUnderflow

var trapSingles = func() []uint32 {
	var out []uint32
	for b := uint32(1); b < 1<<12; b <<= 1 {
		out = append(out, b)
	}
	return out
}()

func genTrapSet(r *plan.Rng) uint32 {
	switch r.Intn(10) {
	case 0, 1, 2, 3:
		return trapSingles[r.Intn(len(trapSingles))]
	case 4:
		return DefaultTraps
	case 5:
		return 0xfff
	case 6:
		return trapSingles[r.Intn(len(trapSingles))] | trapSingles[r.Intn(len(trapSingles))]
	default:
		return uint32(r.U64()) & 0xfff
	}
}

// genNarrowCtx draws contexts whose exponent range is narrow, so that
// Subnormal / Underflow / Overflow / Clamped fire late inside a series rather
// than only at the first inexact step.
func genNarrowCtx(r *plan.Rng, maxPrec uint32) plan.Ctx {
	c := GenCtx(r, 0, maxPrec)
	switch r.Intn(6) {
	case 0:
		c.Emin = int32(-r.Range(1, 12))
	case 1:
		c.Emin = int32(-r.Range(1, 40))
		c.Emax = int32(r.Range(int(c.P), int(c.P)+40))
	case 2:
		c.Emax = int32(r.Range(int(c.P), int(c.P)+6))
	case 3:
		c.Emin = int32(-r.Range(int(c.P), 3*int(c.P)+3))
	}
	if c.Emax < int32(c.P) {
		c.Emax = int32(c.P)
	}
	return c
}

var trapOps = []string{"Add", "Sub", "Mul", "Quo", "QuoInteger", "Rem", "Pow", "Cmp",
	"Abs", "Neg", "Round", "Sqrt", "Cbrt", "Exp", "Ln", "Log10", "RoundToIntegralValue", "RoundToIntegralExact", "Ceil", "Floor", "Reduce", "Quantize", "CtxSetString", "CtxNewFromString"}
var trapHeavy = []string{"Sqrt", "Cbrt", "Exp", "Ln", "Log10", "Pow"}

// genTrapOperand draws operands that make transcendental functions take their
// interesting paths: near 1 (Ln power series), moderate magnitudes, small
// fractions.
func genTrapOperand(r *plan.Rng) plan.Dec {
	switch r.Intn(8) {
	case 0:
		k := 1 + r.Intn(6)
		return plan.Dec{Coeff: "9" + randDigits(r, k), Exp: int32(-(k + 1))} // 0.9x
	case 1:
		k := 1 + r.Intn(6)
		return plan.Dec{Coeff: "10" + randDigits(r, k), Exp: int32(-(k + 1))} // 1.0x
	case 2:
		return plan.Dec{Coeff: randDigits(r, 1+r.Intn(4)), Exp: int32(-r.Intn(4)), Neg: r.Chance(1, 4)}
	case 3:
		return plan.Dec{Coeff: randDigits(r, 1+r.Intn(8)), Exp: int32(r.Range(-12, 4)), Neg: r.Chance(1, 4)}
	case 4:
		// small integers (exponents of Pow, divisors)
		return plan.Dec{Coeff: fmt.Sprint(r.Intn(6)), Neg: r.Chance(1, 5)}
	case 5:
		// 1 ± 10^-k and 10^k ± 1: squares and products that are inexact at the
		// working precision while the final rounding only drops zeros
		k := 2 + r.Intn(18)
		switch r.Intn(3) {
		case 0:
			return plan.Dec{Coeff: "1" + strings.Repeat("0", k-1) + "1", Exp: int32(-k)}
		case 1:
			return plan.Dec{Coeff: "1" + strings.Repeat("0", k-1) + "1", Exp: 0}
		default:
			return plan.Dec{Coeff: strings.Repeat("9", k), Exp: int32(-k)}
		}
	}
	return GenDec(r, false)
}

// GenTrap draws a list of fault / fault-free pairs.
func GenTrap(seed, run uint64, tier string) *plan.Plan {
	r := plan.NewRng(plan.Derive(seed, run, 303))
	p := &plan.Plan{V: 1, Property: "C03", Workload: "trap", Seed: seed, Run: run}
	maxPrec := uint32(20)
	switch r.Intn(8) {
	case 0:
		maxPrec = 60
		if r.Chance(1, 3) {
			// occasionally very high precision: internal tables and constants
			// have precision-dependent paths (constWithPrecision, table misses)
			maxPrec = 200
		}
	case 1, 2:
		maxPrec = 34
	case 3:
		maxPrec = 7
	}
	nctx := r.Range(2, 6)
	for i := 0; i < nctx; i++ {
		p.Contexts = append(p.Contexts, genNarrowCtx(r, maxPrec))
	}
	if r.Chance(1, 4) {
		p.Contexts = append(p.Contexts, plan.Ctx{Base: true, Emax: 100000, Emin: -100000, Traps: DefaultTraps})
	}
	nshared := r.Range(4, 10)
	for i := 0; i < nshared; i++ {
		p.Shared = append(p.Shared, genTrapOperand(r))
	}
	var tk plan.Task
	nregs := r.Range(3, 5)
	for i := 0; i < nregs; i++ {
		tk.Regs = append(tk.Regs, genTrapOperand(r))
	}
	n := r.Range(10, 60)
	heavyBias := r.Intn(3)
	for i := 0; i < n; i++ {
		st := plan.Step{Ctx: r.Intn(len(p.Contexts)), D: fmt.Sprintf("r%d", r.Intn(nregs))}
		opnd := func() string {
			if r.Chance(9, 16) {
				return fmt.Sprintf("s%d", r.Intn(nshared))
			}
			return fmt.Sprintf("r%d", r.Intn(nregs))
		}
		if heavyBias > 0 && r.Chance(heavyBias, 3) {
			st.Op = pick(r, trapHeavy)
		} else {
			st.Op = pick(r, trapOps)
		}
		def := Ops[st.Op]
		switch def.Kind {
		case KCtx3:
			st.X, st.Y = opnd(), opnd()
		case KCtx2:
			st.X = opnd()
		case KCtxQ:
			st.X = opnd()
			st.N = int64(r.Range(-12, 6))
		case KCtxStr:
			st.S = GenParseString(r)
		}
		if (st.Op == "Sqrt" || st.Op == "Cbrt") && r.Chance(1, 4) {
			// exact roots reach the exactness tests at the end of the root functions
			k := 2
			if st.Op == "Cbrt" {
				k = 3
			}
			tk.Steps = append(tk.Steps, plan.Step{Op: "CtxSetString", Ctx: len(p.Contexts) - 1, D: st.D, S: ExactPowerText(r, k), Traps: new(uint32)})
			st.X = st.D
		}
		// a quarter of the pairs are executed in place (destination = an operand):
		// the trap rules must hold for aliased calls too
		if r.Chance(1, 4) {
			switch def.Kind {
			case KCtx3:
				if r.Bool() {
					st.X = st.D
				} else {
					st.Y = st.D
				}
			case KCtx2, KCtxQ:
				st.X = st.D
			}
		}
		t := genTrapSet(r)
		st.Traps = &t
		tk.Steps = append(tk.Steps, st)
	}
	p.Tasks = []plan.Task{tk}
	return p
}

// roomFor executes def on fresh objects: all distinct (the clean-room call) if
// the step's destination is not one of its operands, otherwise with the same
// storage sharing as the step (the destination *is* that operand).
func roomFor(def *OpDef, a *Args) (Outcome, *Args) {
	if a.D == nil || (a.D != a.X && a.D != a.Y) {
		return cleanRoom(def, a)
	}
	cr := &Args{C: a.C, N: a.N, S: a.S}
	cr.X = cloneDec(a.X)
	if a.Y == a.X {
		cr.Y = cr.X
	} else {
		cr.Y = cloneDec(a.Y)
	}
	if a.D == a.X {
		cr.D = cr.X
	} else {
		cr.D = cr.Y
	}
	return Exec(def, cr), cr
}

func withTraps(c *apd.Context, t apd.Condition) *apd.Context {
	nc := *c
	nc.Traps = t
	return &nc
}

// RunTrap executes the pairs.
func RunTrap(p *plan.Plan) *plan.Result {
	res := &plan.Result{Run: p.Run, Stats: map[string]uint64{}}
	st := res.Stats
	env := Env{}
	for _, c := range p.Contexts {
		env.Ctxs = append(env.Ctxs, BuildCtx(c))
	}
	for _, d := range p.Shared {
		env.Shared = append(env.Shared, BuildDec(d))
	}
	tk := &p.Tasks[0]
	for _, d := range tk.Regs {
		env.Regs = append(env.Regs, BuildDec(d))
	}
	seen := map[string]bool{}
	addViol := func(v plan.Violation) {
		id := v.Class + "|" + v.Key
		if seen[id] || len(res.Violations) >= 8 {
			return
		}
		seen[id] = true
		res.Violations = append(res.Violations, v)
	}
	setMode(modeCount)
	defer setMode(modeOff)
	var a Args
	var digest uint64
	nontrivial := false
	stop := false
	for si := range tk.Steps {
		step := &tk.Steps[si]
		def := Ops[step.Op]
		if def == nil || step.Traps == nil {
			continue
		}
		env.Resolve(step, &a)
		T := apd.Condition(*step.Traps)
		base := a.C
		// fault-free reference
		ref := a
		ref.C = withTraps(base, 0)
		beginOp(soloOpCap)
		out0, cr0 := roomFor(def, &ref)
		n0 := opSteps()
		if out0.Deadlock {
			addViol(plan.Violation{Property: "C03", Class: "C03/hang/" + step.Op, Key: "lock-left-held", Step: si,
				Detail: fmt.Sprintf("step %d %s: the call waits for a lock that an earlier operation left held: it never returns", si, step.Op)})
			break
		}
		if out0.Hang {
			st["skipped_budget"]++
			break
		}
		// fault-injecting execution
		flt := a
		flt.C = withTraps(base, T)
		beginOp(20*n0 + 2_000_000)
		outT, _ := roomFor(def, &flt)
		nT := opSteps()
		st["steps"] += n0 + nT
		st["ops"]++
		st["pairs_"+step.Op]++
		desc := func() string {
			return fmt.Sprintf("step %d %s ctx=%+v traps=%q (%#x)\n  operands: x=%s y=%s n=%d s=%q\n  Traps=0: %s (%d steps)\n  Traps=T: %s (%d steps)",
				si, step.Op, *base, T.String(), uint32(T), DecVal(a.X), DecVal(a.Y), a.N, a.S, out0, n0, outT, nT)
		}
		c0 := apd.Condition(out0.Cond)
		switch {
		case outT.Hang:
			// A3: liveness after the fault
			addViol(plan.Violation{Property: "C03", Class: "C03/hang/" + step.Op, Key: "hang", Step: si,
				Detail: "the call did not return within the step budget once a trapped condition had fired\n" + desc()})
			stop = true
		case outT.Panic != "" && out0.Panic == "":
			addViol(plan.Violation{Property: "C03", Class: "C03/panic/" + step.Op, Key: "panic", Step: si, Detail: "panic only under the trap set\n" + desc()})
		case outT.Panic != "":
			st["panic_both"]++
		default:
			shouldFail := c0&T != 0 || out0.Err != "" || c0&sysFlags != 0
			if outT.Err == "" {
				// A1: no error => identical result and flags
				if outT.DVal != out0.DVal || outT.Cond != out0.Cond || outT.Aux != out0.Aux {
					addViol(plan.Violation{Property: "C03", Class: "C03/result-changed/" + step.Op, Key: "A1", Step: si,
						Detail: "error is nil but destination / Condition differ from the Traps=0 execution\n" + desc()})
				}
				// A2: raised trapped condition (or system limit) => error
				if shouldFail {
					addViol(plan.Violation{Property: "C03", Class: "C03/error-hidden/" + step.Op, Key: "A2", Step: si,
						Detail: "a condition in the trap set (or a system limit) was raised but the error is nil\n" + desc()})
				}
			} else {
				if out0.Err == "" {
					st["fault_trap_fired"]++
					st["fault_trap_"+step.Op]++
					nontrivial = true
					dec := uint64(9)
					if n0 > 0 && nT < n0 {
						dec = nT * 10 / n0
					} else if nT >= n0 {
						dec = 10
					}
					st[fmt.Sprintf("depth_%s_%02d", step.Op, dec)]++
					for b := apd.Condition(1); b < 1<<12; b <<= 1 {
						if T&b != 0 && (c0&b != 0 || T == b) {
							st["trapbit_"+b.String()]++
						}
					}
				}
				if def.Single {
					// A4: error exactly when flags&Traps != 0 or a system limit was hit
					if !shouldFail {
						addViol(plan.Violation{Property: "C03", Class: "C03/spurious-error/" + step.Op, Key: "A4", Step: si,
							Detail: "single-rounding operation returned an error although no trapped condition and no system limit was raised\n" + desc()})
					}
					// A5: result and flags still delivered alongside a trap error
					if c0&T != 0 && c0&sysFlags == 0 && out0.Err == "" {
						if outT.DVal != out0.DVal || outT.Cond != out0.Cond || outT.Aux != out0.Aux {
							addViol(plan.Violation{Property: "C03", Class: "C03/result-withheld/" + step.Op, Key: "A5", Step: si,
								Detail: "error stems from a trapped condition but result / flags are not those of the Traps=0 execution\n" + desc()})
						}
					}
				}
			}
		}
		// history: the register takes the fault-free result
		if a.D != nil && cr0.D != nil && out0.Err == "" && out0.Panic == "" && WellFormed(cr0.D) == "" {
			a.D.Set(cr0.D)
		}
		digest = plan.Mix(digest ^ hashString(out0.String()) ^ hashString(outT.String())<<1)
		if stop {
			break // an abandoned call: no further verdicts from this run
		}
	}
	if globalSnap != nil {
		if d := globalSnap.Check(); d != "" {
			st["globals_changed"]++
		}
	}
	res.Digest = fmt.Sprintf("%016x", digest)
	res.Sig = planSig(p)
	res.Nontrivial = nontrivial
	return res
}
