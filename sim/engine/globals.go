package engine

import (
	"fmt"
	"reflect"
	"sort"
	"unsafe"

	apd "github.com/cockroachdb/apd/v3"
)

// I-globals: every package-level variable of the tree under test (enumerated
// by the generated accessor, so state added by a change is covered) must keep
// the content it had when package initialisation finished. Rule: content that
// was non-zero after init must persist; nodes that were zero/nil/empty after
// init are free (a lazily filled cache is not an alarm); maps and slices may
// grow but keep their init-time entries.

type gnode struct {
	kind     reflect.Kind
	leaf     string   // for scalar kinds
	elems    []*gnode // struct fields / array+slice elements
	keys     []string // map keys (sorted rendering)
	vals     []*gnode // map values, same order
	keyVals  []reflect.Value
	ptr      *gnode
	typeName string
}

type GlobalSnap struct {
	roots   []apd.VerifGlobal
	nodes   []*gnode
	extents []extent
	hash    uint64
	nvars   int
	// package-level variables that are not among the shared constants and
	// lookup tables the property names (state added by a change, e.g. a memo
	// cache): their content is free to change; a change only triggers the
	// behavioural re-evaluation oracle.
	looseExt  []extent
	looseHash uint64
	nloose    int
}

// pinnedConstants are "the package's shared constants and lookup tables" of
// property C06 (its anchors: table.go, const.go, decimal.go, bigint.go,
// round.go, context.go). For these the rule is strict: content that was
// non-zero when package initialisation finished must persist. Any other
// package-level variable found in the tree under test is treated as internal
// mutable state of an implementation (a cache may legitimately replace its
// entries, even ones filled during init), so that a semantically invisible
// cache never raises an alarm; whether such state leaks into results is
// decided by the behavioural oracles (clean-room / repeat call, in-process
// re-evaluation, cross-process history replay).
var pinnedConstants = map[string]bool{
	"BaseContext": true, "_Form_index": true, "bigFive": true, "bigOne": true, "bigTen": true, "bigTwo": true,
	"decimalCbrtC1": true, "decimalCbrtC2": true, "decimalCbrtC3": true, "decimalEight": true, "decimalHalf": true,
	"decimalInfinity": true, "decimalInvLn10": true, "decimalLn10": true, "decimalMaxInt64": true, "decimalMinInt64": true,
	"decimalNaN": true, "decimalOne": true, "decimalOneEighth": true, "decimalThree": true, "decimalTwo": true, "decimalZero": true,
	"digitsLookupTable": true, "negSentinel": true, "pow10LookupTable": true, "roundings": true,
}

// access makes an unexported field value readable through reflect.
func access(v reflect.Value) reflect.Value {
	if v.CanInterface() {
		return v
	}
	if v.CanAddr() {
		return reflect.NewAt(v.Type(), unsafe.Pointer(v.UnsafeAddr())).Elem()
	}
	return v
}

func (g *GlobalSnap) snap(v reflect.Value, depth int, seen map[unsafe.Pointer]bool) *gnode {
	if depth > 12 {
		return nil
	}
	v = access(v)
	if v.IsZero() {
		return nil
	}
	n := &gnode{kind: v.Kind(), typeName: v.Type().String()}
	switch v.Kind() {
	case reflect.Bool:
		n.leaf = fmt.Sprint(v.Bool())
	case reflect.Int, reflect.Int8, reflect.Int16, reflect.Int32, reflect.Int64:
		n.leaf = fmt.Sprint(v.Int())
	case reflect.Uint, reflect.Uint8, reflect.Uint16, reflect.Uint32, reflect.Uint64, reflect.Uintptr:
		n.leaf = fmt.Sprint(v.Uint())
	case reflect.Float32, reflect.Float64:
		n.leaf = fmt.Sprint(v.Float())
	case reflect.Complex64, reflect.Complex128:
		n.leaf = fmt.Sprint(v.Complex())
	case reflect.String:
		n.leaf = v.String()
	case reflect.Struct:
		for i := 0; i < v.NumField(); i++ {
			n.elems = append(n.elems, g.snap(v.Field(i), depth+1, seen))
		}
	case reflect.Array:
		for i := 0; i < v.Len(); i++ {
			n.elems = append(n.elems, g.snap(v.Index(i), depth+1, seen))
		}
	case reflect.Slice:
		if v.Len() > 0 {
			g.extents = append(g.extents, extent{unsafe.Pointer(v.Index(0).UnsafeAddr()), uintptr(v.Len()) * v.Type().Elem().Size()})
		}
		for i := 0; i < v.Len(); i++ {
			n.elems = append(n.elems, g.snap(v.Index(i), depth+1, seen))
		}
	case reflect.Map:
		type kv struct {
			k  string
			v  reflect.Value
			kk reflect.Value
		}
		var kvs []kv
		it := v.MapRange()
		for it.Next() {
			kvs = append(kvs, kv{fmt.Sprintf("%#v", access(it.Key())), it.Value(), it.Key()})
		}
		sort.Slice(kvs, func(i, j int) bool { return kvs[i].k < kvs[j].k })
		for _, e := range kvs {
			n.keys = append(n.keys, e.k)
			n.keyVals = append(n.keyVals, e.kk)
			// map values are not addressable; copy to make unexported fields readable
			cp := reflect.New(e.v.Type()).Elem()
			cp.Set(e.v)
			n.vals = append(n.vals, g.snap(cp, depth+1, seen))
		}
	case reflect.Ptr:
		p := unsafe.Pointer(v.Pointer())
		if seen[p] {
			n.leaf = "cycle"
			return n
		}
		seen[p] = true
		if sz := v.Type().Elem().Size(); sz > 0 {
			g.extents = append(g.extents, extent{p, sz})
		}
		n.ptr = g.snap(v.Elem(), depth+1, seen)
		delete(seen, p)
	case reflect.Interface:
		n.ptr = g.snap(v.Elem(), depth+1, seen)
	case reflect.Func, reflect.Chan, reflect.UnsafePointer:
		n.leaf = "opaque"
	}
	return n
}

func (g *GlobalSnap) cmp(old *gnode, v reflect.Value, path string, depth int) string {
	if old == nil {
		return "" // zero at init: free
	}
	v = access(v)
	if v.Kind() != old.kind {
		return fmt.Sprintf("%s: kind %v -> %v", path, old.kind, v.Kind())
	}
	switch v.Kind() {
	case reflect.Bool:
		if s := fmt.Sprint(v.Bool()); s != old.leaf {
			return fmt.Sprintf("%s: %s -> %s", path, old.leaf, s)
		}
	case reflect.Int, reflect.Int8, reflect.Int16, reflect.Int32, reflect.Int64:
		if s := fmt.Sprint(v.Int()); s != old.leaf {
			return fmt.Sprintf("%s: %s -> %s", path, old.leaf, s)
		}
	case reflect.Uint, reflect.Uint8, reflect.Uint16, reflect.Uint32, reflect.Uint64, reflect.Uintptr:
		if s := fmt.Sprint(v.Uint()); s != old.leaf {
			return fmt.Sprintf("%s: %s -> %s", path, old.leaf, s)
		}
	case reflect.Float32, reflect.Float64:
		if s := fmt.Sprint(v.Float()); s != old.leaf {
			return fmt.Sprintf("%s: %s -> %s", path, old.leaf, s)
		}
	case reflect.Complex64, reflect.Complex128:
		if s := fmt.Sprint(v.Complex()); s != old.leaf {
			return fmt.Sprintf("%s: %s -> %s", path, old.leaf, s)
		}
	case reflect.String:
		if s := v.String(); s != old.leaf {
			return fmt.Sprintf("%s: %q -> %q", path, old.leaf, s)
		}
	case reflect.Struct:
		for i := 0; i < v.NumField() && i < len(old.elems); i++ {
			if d := g.cmp(old.elems[i], v.Field(i), path+"."+v.Type().Field(i).Name, depth+1); d != "" {
				return d
			}
		}
	case reflect.Array:
		for i := 0; i < v.Len() && i < len(old.elems); i++ {
			if d := g.cmp(old.elems[i], v.Index(i), fmt.Sprintf("%s[%d]", path, i), depth+1); d != "" {
				return d
			}
		}
	case reflect.Slice:
		if v.Len() < len(old.elems) {
			return fmt.Sprintf("%s: slice shrank %d -> %d", path, len(old.elems), v.Len())
		}
		for i := 0; i < len(old.elems); i++ {
			if d := g.cmp(old.elems[i], v.Index(i), fmt.Sprintf("%s[%d]", path, i), depth+1); d != "" {
				return d
			}
		}
	case reflect.Map:
		for i, k := range old.keyVals {
			e := v.MapIndex(k)
			if !e.IsValid() {
				return fmt.Sprintf("%s: map entry %s removed", path, old.keys[i])
			}
			cp := reflect.New(e.Type()).Elem()
			cp.Set(e)
			if d := g.cmp(old.vals[i], cp, fmt.Sprintf("%s[%s]", path, old.keys[i]), depth+1); d != "" {
				return d
			}
		}
	case reflect.Ptr:
		if old.leaf == "cycle" {
			return ""
		}
		if v.IsNil() {
			return fmt.Sprintf("%s: pointer became nil", path)
		}
		return g.cmp(old.ptr, v.Elem(), "(*"+path+")", depth+1)
	case reflect.Interface:
		if v.IsNil() {
			return fmt.Sprintf("%s: interface became nil", path)
		}
		return g.cmp(old.ptr, v.Elem(), path, depth+1)
	}
	return ""
}

// harnessOwned lists generated variables that are not part of the tree under
// test.
var harnessOwned = map[string]bool{"VerifHook": true, "VerifSteps": true, "verifLkDepth": true, "VerifSites": true}

// SnapGlobals walks every package-level variable.
func SnapGlobals() *GlobalSnap {
	g := &GlobalSnap{}
	for _, r := range apd.VerifGlobals() {
		if harnessOwned[r.Name] {
			continue
		}
		v := reflect.ValueOf(r.Ptr).Elem()
		if !pinnedConstants[r.Name] {
			// loose: raw memory of the variable itself plus what it reaches now
			tmp := &GlobalSnap{}
			if sz := v.Type().Size(); sz > 0 {
				tmp.extents = append(tmp.extents, extent{unsafe.Pointer(v.UnsafeAddr()), sz})
			}
			tmp.snap(v, 0, map[unsafe.Pointer]bool{})
			g.looseExt = append(g.looseExt, tmp.extents...)
			g.nloose++
			continue
		}
		g.roots = append(g.roots, r)
		if sz := v.Type().Size(); sz > 0 {
			g.extents = append(g.extents, extent{unsafe.Pointer(v.UnsafeAddr()), sz})
		}
		g.nodes = append(g.nodes, g.snap(v, 0, map[unsafe.Pointer]bool{}))
	}
	g.nvars = len(g.roots) + g.nloose
	g.hash = hashExtents(g.extents)
	g.looseHash = hashExtents(g.looseExt)
	return g
}

// Check does the full deep comparison; "" means unchanged.
func (g *GlobalSnap) Check() string {
	for i, r := range g.roots {
		v := reflect.ValueOf(r.Ptr).Elem()
		if d := g.cmp(g.nodes[i], v, r.Name, 0); d != "" {
			return d
		}
	}
	return ""
}

// FastSame is the raw-memory check usable while tasks are live.
//
//go:norace
func (g *GlobalSnap) FastSame() bool { return hashExtents(g.extents) == g.hash }

func (g *GlobalSnap) NumVars() int { return g.nvars }

// Rebase accepts the current raw memory as the new fast-path baseline. It is
// called only after a full deep Check has passed (e.g. a lazily filled cache
// that was empty at init has grown).
func (g *GlobalSnap) Rebase() { g.hash = hashExtents(g.extents) }

// LooseChanged reports whether the raw memory of the non-pinned package state
// differs from the last time it was asked, and re-bases.
//
//go:norace
func (g *GlobalSnap) LooseChanged() bool {
	if len(g.looseExt) == 0 {
		return false
	}
	h := hashExtents(g.looseExt)
	if h == g.looseHash {
		return false
	}
	g.looseHash = h
	return true
}

func (g *GlobalSnap) NumLoose() int { return g.nloose }
