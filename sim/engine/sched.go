package engine

import (
	"runtime"
	"sync"
	"time"
	"unsafe"

	"apdsim/plan"

	apd "github.com/cockroachdb/apd/v3"
)

// The scheduler. Tasks are real goroutines but exactly one is logically
// running: the process pins GOMAXPROCS(1) and a parked task spins on
// `for turn != me { runtime.Gosched() }`. Every variable of the scheduler is a
// plain variable touched only inside //go:norace functions; the hand-off uses no
// channel, mutex or atomic, so the race detector sees no happens-before edge
// between tasks and reports every conflicting pair of accesses made by two
// tasks whatever the interleaving, while the interleaving itself is exactly the
// one in the plan.

type hookMode int

const (
	modeOff hookMode = iota
	modeCount
	modeSched
)

type schedTask struct {
	id       int
	steps    uint64 // local yield counter
	preempts []plan.Preempt
	pi       int
	done     bool
	started  bool
	opSteps  uint64
	opBudget uint64
	lastSite int32
	waitAddr unsafe.Pointer // simulated lock this task waits for
	// real blocking primitives (channels, Cond, WaitGroup)
	inBlocking  bool  // inside a bracketed, possibly blocking statement
	realBlocked bool  // declared parked in the Go runtime; does not hold the processor
	bkSince     int64 // wall clock (ns) at which a spinner first saw it not progressing
	bkClock     uint64
}

type switchEvent struct {
	Task  int
	At    uint64
	Site  int32
	To    int
	Clock uint64
}

var (
	sMode      hookMode
	sTurn      int
	sTasks     []*schedTask
	sClock     uint64 // global yield counter (simulated time, in steps)
	sOpSteps   uint64 // yields inside the current operation (one-task modes)
	sOpBudget  uint64 // 0 = unlimited
	sSwitches  uint64
	sEvHash    uint64
	sEvLog     []switchEvent
	sKeepLog   bool
	sAbort     bool
	sMonitor   func()      // called at every switch and every 64th step; must be norace
	sPairBits  [8192]uint8 // 65536-bucket bitmap of (preempted site, resumed site) pairs, per process
	sLastSite  int32
	sHotSteps  []uint64 // in count mode: step indices at which a hot site was hit
	sRecordHot bool
	sSiteHot   []bool
	sSiteSync  []bool
	sSyncSteps []uint64 // in count mode: step indices right after a synchronising statement
	nSyncSites int
	sSiteHits  []uint8 // per process: yield sites executed at least once
	sInOp      []int32 // per task: index of op in flight (for overlap stats)
)

func init() {
	sSiteHot = make([]bool, len(apd.VerifSites))
	sSiteSync = make([]bool, len(apd.VerifSites))
	sSiteHits = make([]uint8, len(apd.VerifSites))
	for i, s := range apd.VerifSites {
		sSiteHot[i] = s.Hot
		sSiteSync[i] = s.Sync
		if s.Sync {
			nSyncSites++
		}
	}
}

// InstallHook activates the yield hook and the simulated-lock hooks.
func InstallHook() {
	apd.VerifHook = hook
	apd.VerifWait = simWait
	apd.VerifWake = simWake
	apd.VerifBkEnter = bkEnter
	apd.VerifBkLeave = bkLeave
	apd.VerifGo = simGo
}

// sJoin is the WaitGroup of the concurrent phase in progress; child tasks
// (go statements of the tree under test) join it.
var (
	sJoin     *sync.WaitGroup
	sChildren uint64
)

// simGo runs fn as a new simulated task: it waits for its turn like any task,
// is chosen by the fallback rule (lowest-numbered runnable task) whenever the
// running task finishes, waits for a lock or parks, and the phase ends only when
// it has finished too.
//
//go:norace
func simGo(fn func()) {
	if sMode != modeSched || sJoin == nil {
		go fn()
		return
	}
	id := len(sTasks)
	sTasks = append(sTasks, &schedTask{id: id})
	sInOp = append(sInOp, -1)
	sChildren++
	sJoin.Add(1)
	go func() {
		defer sJoin.Done()
		waitTurn(id)
		fn()
		finish(id)
	}()
}

// Real blocking primitives. A task that enters a bracketed statement keeps the
// processor; only if it makes no progress for 50 ms of wall time while other
// tasks are spinning for their turn is it declared parked, and the processor
// goes to the next runnable task (the wall clock decides *that* it is parked,
// never *when* anything happens in simulated time: nothing else advances while
// it holds the processor). When it is woken it runs to the end of the bracket,
// marks itself runnable and waits for its turn; every bracketed statement ends
// by letting freshly woken goroutines reach that point (settle), so the set of
// runnable tasks is a function of simulated time.
var (
	sRealBlocks uint64
	sUnbounded  bool
)

// in a one-task execution a bracketed statement that never completes is an
// unbounded wait: nobody exists who could wake the task
var (
	sSoloBlocking bool
	sSoloBkCount  uint64
)

//go:norace
func soloBlocked() (bool, uint64) { return sMode == modeCount && sSoloBlocking, sSoloBkCount }

//go:norace
func bkEnter() int32 {
	if sMode == modeCount {
		sSoloBlocking = true
		sSoloBkCount++
		return -2
	}
	if sMode != modeSched || sTurn < 0 {
		return -1
	}
	t := sTasks[sTurn]
	t.inBlocking = true
	t.bkSince = 0
	return int32(t.id)
}

//go:norace
func settle() {
	for i := 0; i < 4*len(sTasks)+4; i++ {
		runtime.Gosched()
	}
}

//go:norace
func bkLeave(tok int32) {
	if tok == -2 {
		sSoloBlocking = false
		return
	}
	if tok < 0 || int(tok) >= len(sTasks) {
		return
	}
	t := sTasks[tok]
	t.inBlocking = false
	if t.realBlocked {
		// we were parked and the processor was given away; runnable again
		t.realBlocked = false
		if sTurn < 0 {
			sTurn = t.id
		}
		for sTurn != t.id {
			runtime.Gosched()
		}
	}
	settle()
}

// spinCheck is called by tasks that spin for their turn: has the task that
// holds the processor parked in the Go runtime?
//
//go:norace
func spinCheck(me int) {
	h := sTurn
	if h < 0 || h >= len(sTasks) {
		return
	}
	t := sTasks[h]
	if !t.inBlocking || t.realBlocked {
		return
	}
	now := nanotime()
	if t.bkSince == 0 || t.bkClock != sClock {
		t.bkSince = now
		t.bkClock = sClock
		return
	}
	if now-t.bkSince < 50_000_000 {
		return
	}
	// parked: hand the processor to the lowest-numbered runnable task
	t.realBlocked = true
	sRealBlocks++
	to := nextRunnable(h)
	sEvHash = plan.Mix(sEvHash ^ uint64(h)<<48 ^ t.steps<<8 ^ 0xfd<<40 ^ uint64(int64(to)))
	if sKeepLog {
		sEvLog = append(sEvLog, switchEvent{h, t.steps, -2, to, sClock})
	}
	sTurn = to
}

//go:norace
func nanotime() int64 { return time.Now().UnixNano() }

type deadlockSentinel struct{}

var (
	sDeadlock    bool
	sLockWaits   uint64
	sDeadlockOps []int32 // operation in flight per task when the deadlock was detected
)

// simWait is called by a simulated lock that the running task cannot take.
//
//go:norace
func simWait(addr unsafe.Pointer) {
	if sMode != modeSched {
		// one task: nobody else can release the lock (recursive locking)
		panic(deadlockSentinel{})
	}
	t := sTasks[sTurn]
	if sDeadlock {
		t.waitAddr = nil
		panic(deadlockSentinel{})
	}
	t.waitAddr = addr
	sLockWaits++
	to := nextRunnable(t.id)
	if to < 0 {
		// every live task waits for a lock
		sDeadlockOps = append(sDeadlockOps[:0], sInOp...)
		sDeadlock = true
		sAbort = true
		t.waitAddr = nil
		panic(deadlockSentinel{})
	}
	if sMonitor != nil {
		sMonitor()
	}
	sSwitches++
	sEvHash = plan.Mix(sEvHash ^ uint64(t.id)<<48 ^ t.steps<<8 ^ 0xfe<<40 ^ uint64(to))
	if sKeepLog {
		sEvLog = append(sEvLog, switchEvent{t.id, t.steps, -1, to, sClock})
	}
	sTurn = to
	for sTurn != t.id {
		runtime.Gosched()
		spinCheck(t.id)
	}
	t.waitAddr = nil
	if sDeadlock {
		panic(deadlockSentinel{})
	}
}

// simWake makes the tasks that wait for addr runnable again.
//
//go:norace
func simWake(addr unsafe.Pointer) {
	if sMode != modeSched {
		return
	}
	for _, t := range sTasks {
		if t.waitAddr == addr {
			t.waitAddr = nil
		}
	}
}

//go:norace
func deadlocked() bool { return sDeadlock }

//go:norace
func hook(site int32) {
	sSiteHits[site] = 1
	switch sMode {
	case modeOff:
		return
	case modeCount:
		sClock++
		sOpSteps++
		if sRecordHot {
			if sSiteHot[site] {
				sHotSteps = append(sHotSteps, sOpSteps)
			}
			if sSiteSync[site] {
				sSyncSteps = append(sSyncSteps, sOpSteps)
			}
		}
		if sOpBudget != 0 && sOpSteps > sOpBudget {
			sOpSteps = 0
			panic(hangSentinel{})
		}
		if sWallDeadline != 0 && sOpSteps&127 == 0 && nanotime() > sWallDeadline {
			// reference executions only (see setWallCap): the call is abandoned
			// and its run gives no verdict, exactly as with the step budget
			sOpSteps = 0
			sWallTrips++
			panic(hangSentinel{})
		}
	case modeSched:
		t := sTasks[sTurn]
		t.steps++
		t.opSteps++
		sClock++
		sLastSite = site
		if t.opBudget != 0 && t.opSteps > t.opBudget {
			t.opSteps = 0
			panic(hangSentinel{})
		}
		if sWallDeadline != 0 && t.steps&127 == 0 && nanotime() > sWallDeadline {
			// only set for concurrent phases that have no reference execution yet
			// (cold mode), where an abandoned call skips the run
			t.opSteps = 0
			sWallTrips++
			panic(hangSentinel{})
		}
		if t.pi < len(t.preempts) && t.steps >= t.preempts[t.pi].At {
			to := t.preempts[t.pi].To
			t.pi++
			// skip entries that were overtaken (cannot happen with a sorted list)
			for t.pi < len(t.preempts) && t.preempts[t.pi].At <= t.steps {
				t.pi++
			}
			switchTo(t, to, site)
		} else if sClock&63 == 0 && sMonitor != nil {
			sMonitor()
		}
	}
}

//go:norace
func nextRunnable(after int) int {
	n := len(sTasks)
	for i := 0; i < n; i++ {
		if !sTasks[i].done && i != after && sTasks[i].waitAddr == nil && !sTasks[i].realBlocked {
			return i
		}
	}
	return -1
}

// anyLive reports a task that is not done (it may be waiting for a lock).
//
//go:norace
func anyLive(after int) int {
	for i := range sTasks {
		if !sTasks[i].done && i != after {
			return i
		}
	}
	return -1
}

//go:norace
func switchTo(me *schedTask, to int, site int32) {
	if to < 0 || to >= len(sTasks) || sTasks[to].done || to == me.id || sTasks[to].waitAddr != nil || sTasks[to].realBlocked {
		if to == me.id {
			return
		}
		to = nextRunnable(me.id)
		if to < 0 {
			return
		}
	}
	if sMonitor != nil {
		sMonitor()
	}
	sSwitches++
	me.lastSite = site
	pair := plan.Mix(uint64(uint32(site))<<32|uint64(uint32(sTasks[to].lastSite))) & 0xffff
	sPairBits[pair>>3] |= 1 << (pair & 7)
	sEvHash = plan.Mix(sEvHash ^ uint64(me.id)<<48 ^ me.steps<<8 ^ uint64(uint32(site))<<40 ^ uint64(to))
	if sKeepLog {
		sEvLog = append(sEvLog, switchEvent{me.id, me.steps, site, to, sClock})
	}
	sTurn = to
	for sTurn != me.id {
		runtime.Gosched()
		spinCheck(me.id)
	}
}

// waitTurn parks a task until it is scheduled for the first time.
//
//go:norace
func waitTurn(me int) {
	for sTurn != me {
		runtime.Gosched()
		spinCheck(me)
	}
	sTasks[me].started = true
}

// finish marks the task done and hands over to the lowest-numbered runnable
// task.
//
//go:norace
func finish(me int) {
	t := sTasks[me]
	t.done = true
	if sMonitor != nil {
		sMonitor()
	}
	if anyParked(me) {
		settle() // what this task did last may have woken a parked one
	}
	to := nextRunnable(me)
	if to < 0 && anyParked(me) {
		// the remaining tasks are parked in the Go runtime: nobody holds the
		// processor until one of them is woken (or the stall monitor gives up)
		sTurn = -1
		return
	}
	if to < 0 {
		if w := anyLive(me); w >= 0 {
			// the remaining tasks all wait for locks nobody will release
			sDeadlockOps = append(sDeadlockOps[:0], sInOp...)
			sDeadlock = true
			sAbort = true
			to = w
		}
	}
	if to >= 0 {
		sEvHash = plan.Mix(sEvHash ^ uint64(me)<<48 ^ t.steps<<8 ^ 0xff<<40 ^ uint64(to))
		sTurn = to
	}
}

//go:norace
func anyParked(after int) bool {
	for i := range sTasks {
		if !sTasks[i].done && i != after && sTasks[i].realBlocked {
			return true
		}
	}
	return false
}

//go:norace
func aborted() bool { return sAbort }

//go:norace
func setAbort() { sAbort = true }

//go:norace
func setInOp(task int, op int32) { sInOp[task] = op }

//go:norace
func resetSched(n int, sch *plan.Schedule, keepLog bool) {
	sTasks = make([]*schedTask, n)
	sInOp = make([]int32, n)
	for i := range sTasks {
		sTasks[i] = &schedTask{id: i}
		sInOp[i] = -1
	}
	if sch != nil {
		for _, p := range sch.Preempt {
			if p.Task >= 0 && p.Task < n {
				sTasks[p.Task].preempts = append(sTasks[p.Task].preempts, p)
			}
		}
		sTurn = sch.First
		if sTurn < 0 || sTurn >= n {
			sTurn = 0
		}
	}
	sClock = 0
	sSwitches = 0
	sEvHash = 0
	sEvLog = sEvLog[:0]
	sKeepLog = keepLog
	sAbort = false
	sDeadlock = false
	sLockWaits = 0
	sRealBlocks = 0
}

//go:norace
func setTaskBudget(task int, budget uint64) {
	sTasks[task].opSteps = 0
	sTasks[task].opBudget = budget
}

//go:norace
func setMode(m hookMode) { sMode = m }

//go:norace
func beginOp(budget uint64) { sOpSteps = 0; sOpBudget = budget }

// A step budget does not bound time when every step is a multiplication of
// numbers with a hundred thousand digits. The one-task *reference* execution of
// the concurrent workload (never a faulted or concurrent execution, whose
// overrun is a verdict) therefore also has a wall-clock cap per call; a run
// that trips it is skipped like one that exhausts its step budget.
var (
	sWallDeadline int64
	sWallTrips    uint64
)

//go:norace
func setWallCap(d time.Duration) {
	if d == 0 {
		sWallDeadline = 0
		return
	}
	sWallDeadline = nanotime() + int64(d)
}

//go:norace
func opSteps() uint64 { return sOpSteps }

//go:norace
func clock() uint64 { return sClock }

// SitePairBitmap returns the per-process bitmap of distinct (preempted site,
// resumed site) pairs as hex.
func SitePairBitmap() []byte { return sPairBits[:] }

// SiteHits returns which yield sites this process executed.
func SiteHits() []uint8 { return sSiteHits }

// SiteNames returns "file:line func" for every site.
func SiteNames() []string {
	out := make([]string, len(apd.VerifSites))
	for i, s := range apd.VerifSites {
		out[i] = s.Func
	}
	return out
}

//go:norace
func schedProgress() (hookMode, uint64, uint64) { return sMode, sClock, sLockWaits + sRealBlocks }

// parkedForever: in a concurrent phase, is every task that is still alive
// parked in the Go runtime (or is the holder of the processor parked with nobody
// left to take over)?
//
//go:norace
func parkedForever() bool {
	if sMode != modeSched {
		return false
	}
	live := 0
	for _, t := range sTasks {
		if t.done {
			continue
		}
		live++
		if !(t.realBlocked || (t.inBlocking && t.id == sTurn)) {
			return false
		}
	}
	return live > 0
}

// StartStallMonitor watches the simulated clock from a separate goroutine. If
// a concurrent phase makes no progress for 20 s of wall time, the task that
// holds the turn is blocked inside a primitive the simulator does not own (a
// channel, sync.Cond, sync.WaitGroup ...): the other tasks can never be given
// the processor, so the run cannot be simulated. The process then reports
// STALL and exits with code 4; the driver counts the run as not simulated and
// carries on with the next one. (Reading the wall clock here influences no
// run: it only decides when to give up on one.)
func StartStallMonitor(report func(), unbounded func(solo bool)) {
	go func() {
		var last uint64
		same := 0
		var soloLast uint64
		soloSame := 0
		for {
			time.Sleep(500 * time.Millisecond)
			if b, n := soloBlocked(); b {
				if n == soloLast {
					soloSame++
				} else {
					soloSame, soloLast = 0, n
				}
				if soloSame >= 8 {
					// one task, 4 s inside one channel / WaitGroup statement: nobody
					// can wake it
					unbounded(true)
				}
			} else {
				soloSame = 0
			}
			m, c, w := schedProgress()
			if m != modeSched {
				same = 0
				continue
			}
			if c+w == last {
				same++
			} else {
				same = 0
				last = c + w
			}
			if same >= 6 && parkedForever() {
				// 3 s without progress and every live task is parked inside a
				// channel / Cond / WaitGroup operation: nobody is left to wake them
				unbounded(false)
			}
			if same >= 40 {
				report()
			}
		}
	}()
}
