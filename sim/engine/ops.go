package engine

import (
	"fmt"
	"math"
	"sort"
	"strings"

	"apdsim/plan"

	apd "github.com/cockroachdb/apd/v3"
)

// Outcome is everything a caller can observe from one call.
type Outcome struct {
	Cond  uint32
	Err   string // error text, "" = nil
	Aux   string // auxiliary returns (ints, strings, second outputs)
	Panic string // non-empty if the call panicked
	DVal  string // destination value after the call ("" if the op has no destination)
	Hang  bool
	// Deadlock: the call waited for a simulated lock / condition that no task
	// could ever release (in a one-task execution: left held by an earlier call,
	// or taken twice)
	Deadlock bool
	// Self: a violation the operation can see by itself (an argument that is
	// not a Decimal register — a *BigInt, a byte slice — was modified by the
	// call). Differential oracles cannot see it because both executions do it.
	Self string
}

func (o Outcome) String() string {
	return fmt.Sprintf("cond=%d err=%q aux=%q panic=%q d=%s hang=%v", o.Cond, o.Err, o.Aux, o.Panic, o.DVal, o.Hang)
}

// Args are the resolved arguments of a step.
type Args struct {
	C       *apd.Context
	D, X, Y *apd.Decimal
	I, F    *apd.Decimal
	N       int64
	S       string
	ED      *apd.ErrDecimal
}

type OpKind int

const (
	KCtx3   OpKind = iota // c.Op(d,x,y)
	KCtx2                 // c.Op(d,x)
	KCtxQ                 // c.Quantize(d,x,n)
	KCtxStr               // c.SetString(d,s) / c.NewFromString(s)
	KRead1                // read-only method on x
	KRead2                // read-only method on x,y
	KDec2                 // d.Op(x)   (Decimal method writing d)
	KDecSet               // d.SetXxx(n / s)
	KModf                 // x.Modf(i,f)
	KED3                  // ed.Op(d,x,y)
	KED2                  // ed.Op(d,x)
	KEDQ                  // ed.Quantize(d,x,n)
	KEDI                  // ed.Int64(x)
	KCtxNew               // c.WithPrecision(n)
)

type OpDef struct {
	Name    string
	Kind    OpKind
	Single  bool // single-rounding operation in the sense of C03
	Heavy   bool // transcendental: cost grows quickly with precision
	WritesD bool
	Run     func(a *Args) Outcome
	CtxName string // for ErrDecimal wrappers: the Context method of the same name
}

var Ops = map[string]*OpDef{}
var OpNames []string

func errText(err error) string {
	if err == nil {
		return ""
	}
	return err.Error()
}

func reg(name string, kind OpKind, single, heavy, writes bool, run func(a *Args) Outcome) *OpDef {
	d := &OpDef{Name: name, Kind: kind, Single: single, Heavy: heavy, WritesD: writes, Run: run}
	Ops[name] = d
	OpNames = append(OpNames, name)
	return d
}

type ctx3 func(c *apd.Context, d, x, y *apd.Decimal) (apd.Condition, error)
type ctx2 func(c *apd.Context, d, x *apd.Decimal) (apd.Condition, error)
type ed3 func(e *apd.ErrDecimal, d, x, y *apd.Decimal) *apd.Decimal
type ed2 func(e *apd.ErrDecimal, d, x *apd.Decimal) *apd.Decimal

func init() {
	c3 := map[string]ctx3{
		"Add":        (*apd.Context).Add,
		"Sub":        (*apd.Context).Sub,
		"Mul":        (*apd.Context).Mul,
		"Quo":        (*apd.Context).Quo,
		"QuoInteger": (*apd.Context).QuoInteger,
		"Rem":        (*apd.Context).Rem,
		"Pow":        (*apd.Context).Pow,
		"Cmp":        (*apd.Context).Cmp,
	}
	for n, f := range c3 {
		f := f
		reg(n, KCtx3, n != "Pow", n == "Pow", true, func(a *Args) Outcome {
			res, err := f(a.C, a.D, a.X, a.Y)
			return Outcome{Cond: uint32(res), Err: errText(err), DVal: DecVal(a.D)}
		})
	}
	c2 := map[string]ctx2{
		"Abs":                  (*apd.Context).Abs,
		"Neg":                  (*apd.Context).Neg,
		"Round":                (*apd.Context).Round,
		"Sqrt":                 (*apd.Context).Sqrt,
		"Cbrt":                 (*apd.Context).Cbrt,
		"Exp":                  (*apd.Context).Exp,
		"Ln":                   (*apd.Context).Ln,
		"Log10":                (*apd.Context).Log10,
		"RoundToIntegralValue": (*apd.Context).RoundToIntegralValue,
		"RoundToIntegralExact": (*apd.Context).RoundToIntegralExact,
		"Ceil":                 (*apd.Context).Ceil,
		"Floor":                (*apd.Context).Floor,
	}
	single2 := map[string]bool{"Abs": true, "Neg": true, "Round": true, "RoundToIntegralValue": true, "RoundToIntegralExact": true}
	heavy2 := map[string]bool{"Sqrt": true, "Cbrt": true, "Exp": true, "Ln": true, "Log10": true}
	for n, f := range c2 {
		f := f
		reg(n, KCtx2, single2[n], heavy2[n], true, func(a *Args) Outcome {
			res, err := f(a.C, a.D, a.X)
			return Outcome{Cond: uint32(res), Err: errText(err), DVal: DecVal(a.D)}
		})
	}
	reg("Reduce", KCtx2, true, false, true, func(a *Args) Outcome {
		n, res, err := a.C.Reduce(a.D, a.X)
		return Outcome{Cond: uint32(res), Err: errText(err), Aux: fmt.Sprint(n), DVal: DecVal(a.D)}
	})
	reg("Quantize", KCtxQ, true, false, true, func(a *Args) Outcome {
		res, err := a.C.Quantize(a.D, a.X, int32(a.N))
		return Outcome{Cond: uint32(res), Err: errText(err), DVal: DecVal(a.D)}
	})
	reg("CtxSetString", KCtxStr, false, false, true, func(a *Args) Outcome {
		r, res, err := a.C.SetString(a.D, a.S)
		aux := "ret=nil"
		if r == a.D {
			aux = "ret=d"
		} else if r != nil {
			aux = "ret=other"
		}
		o := Outcome{Cond: uint32(res), Err: errText(err), Aux: aux}
		if err == nil {
			o.DVal = DecVal(a.D)
		} else {
			// after a parse error the destination is unspecified; normalise
			a.D.SetInt64(0)
			a.D.Exponent = 0
			o.DVal = DecVal(a.D)
		}
		return o
	})
	reg("CtxNewFromString", KCtxStr, false, false, true, func(a *Args) Outcome {
		r, res, err := a.C.NewFromString(a.S)
		o := Outcome{Cond: uint32(res), Err: errText(err), Aux: DecVal(r)}
		if r != nil {
			a.D.Set(r)
		} else {
			a.D.SetInt64(0)
			a.D.Exponent = 0
		}
		o.DVal = DecVal(a.D)
		return o
	})
	reg("WithPrecision", KCtxNew, false, false, false, func(a *Args) Outcome {
		nc := a.C.WithPrecision(uint32(a.N))
		aux := fmt.Sprintf("%d %d %d %d %q same=%v", nc.Precision, nc.MaxExponent, nc.MinExponent, nc.Traps, string(nc.Rounding), nc == a.C)
		return Outcome{Aux: aux}
	})

	// read-only Decimal methods
	reg("DCmp", KRead2, false, false, false, func(a *Args) Outcome {
		return Outcome{Aux: fmt.Sprint(a.X.Cmp(a.Y))}
	})
	reg("CmpTotal", KRead2, false, false, false, func(a *Args) Outcome {
		return Outcome{Aux: fmt.Sprint(a.X.CmpTotal(a.Y))}
	})
	reg("Sign", KRead1, false, false, false, func(a *Args) Outcome {
		return Outcome{Aux: fmt.Sprint(a.X.Sign(), a.X.IsZero(), a.X.NumDigits())}
	})
	// Size reports the memory footprint, which depends on the capacity of the
	// heap slice and therefore on allocation history (e.g. whether a scratch
	// value came out of a pool).
	reg("Size", KRead1, false, false, false, func(a *Args) Outcome {
		// exercised as a shared read; the number itself is not part of any
		// comparison (it reflects slice capacity, i.e. allocation history)
		return Outcome{Aux: fmt.Sprint(a.X.Size() > 0)}
	})
	reg("String", KRead1, false, false, false, func(a *Args) Outcome {
		return Outcome{Aux: a.X.String()}
	})
	reg("Text", KRead1, false, false, false, func(a *Args) Outcome {
		f := "eEfgGx"[int(uint64(a.N)%6)]
		return Outcome{Aux: a.X.Text(f) + "|" + string(a.X.Append([]byte("p:"), f))}
	})
	reg("Sprintf", KRead1, false, false, false, func(a *Args) Outcome {
		fs := fmtStrings[int(uint64(a.N)%uint64(len(fmtStrings)))]
		return Outcome{Aux: fmt.Sprintf(fs, a.X)}
	})
	reg("Int64", KRead1, false, false, false, func(a *Args) Outcome {
		v, err := a.X.Int64()
		return Outcome{Aux: fmt.Sprint(v), Err: errText(err)}
	})
	reg("Float64", KRead1, false, false, false, func(a *Args) Outcome {
		v, err := a.X.Float64()
		return Outcome{Aux: fmt.Sprint(v), Err: errText(err)}
	})
	reg("Decompose", KRead1, false, false, false, func(a *Args) Outcome {
		var buf []byte
		if a.N&1 == 1 {
			buf = make([]byte, 0, 64)
		}
		form, neg, coeff, exp := a.X.Decompose(buf)
		o := Outcome{Aux: fmt.Sprintf("%d %v %x %d", form, neg, coeff, exp)}
		// the returned slice belongs to the caller: writing to it must not reach
		// the Decimal (checked by the operand / shared-memory snapshots)
		for i := range coeff {
			coeff[i] = 0xff
		}
		return o
	})
	reg("MarshalText", KRead1, false, false, false, func(a *Args) Outcome {
		b, err := a.X.MarshalText()
		v, err2 := a.X.Value()
		o := Outcome{Aux: fmt.Sprintf("%s|%v", b, v), Err: errText(err) + errText(err2)}
		for i := range b {
			b[i] = '#'
		}
		return o
	})
	// read-only BigInt methods on the coefficients of (possibly shared) operands
	reg("CoeffRead", KRead2, false, false, false, func(a *Args) Outcome {
		x, y := &a.X.Coeff, &a.Y.Coeff
		s := fmt.Sprint(x.Sign(), x.BitLen(), x.Cmp(y), x.CmpAbs(y), x.IsInt64(), x.IsUint64(), x.TrailingZeroBits(), x.Bit(0), x.Bit(int(uint64(a.N)%130)),
			apd.NumDigits(x), x.String(), x.Text(16), string(x.Append(nil, 10)), fmt.Sprintf("%x", x.Bytes()), x.MathBigInt().String())
		if x.IsInt64() {
			s += fmt.Sprint(x.Int64())
		}
		if x.IsUint64() {
			s += fmt.Sprint(x.Uint64())
		}
		return Outcome{Aux: s}
	})
	reg("NewWithBigInt", KDec2, false, false, true, func(a *Args) Outcome {
		// the coefficient argument may be negative; it is an input and must not
		// be modified
		b := new(apd.BigInt).Set(&a.X.Coeff)
		if a.X.Negative {
			b.Neg(b)
		}
		before := b.String()
		r := apd.NewWithBigInt(b, a.X.Exponent)
		o := Outcome{Aux: DecVal(r)}
		if after := b.String(); after != before {
			o.Self = fmt.Sprintf("NewWithBigInt modified its coefficient argument: %s -> %s", before, after)
		}
		a.D.Set(r)
		o.DVal = DecVal(a.D)
		// the new Decimal owns its coefficient: writing to it in place must not
		// reach the BigInt it was made from
		r.Coeff.Rsh(&r.Coeff, 1)
		r.Coeff.Add(&r.Coeff, &r.Coeff)
		r.Coeff.Not(&r.Coeff)
		r.Coeff.SetBit(&r.Coeff, 0, 1)
		if after := b.String(); after != before && o.Self == "" {
			o.Self = fmt.Sprintf("the coefficient argument of NewWithBigInt changed when the new Decimal was written afterwards (shared storage): %s -> %s", before, after)
		}
		return o
	})
	reg("PkgNewFromString", KCtxStr, false, false, true, func(a *Args) Outcome {
		r, res, err := apd.NewFromString(a.S)
		o := Outcome{Cond: uint32(res), Err: errText(err), Aux: DecVal(r)}
		if r != nil {
			a.D.Set(r)
		} else {
			a.D.SetInt64(0)
			a.D.Exponent = 0
		}
		o.DVal = DecVal(a.D)
		return o
	})
	reg("ShouldAddOne", KRead1, false, false, false, func(a *Args) Outcome {
		out := ""
		for _, name := range RounderNames {
			r := rounders[name]
			for half := -1; half <= 1; half++ {
				out += fmt.Sprint(r.ShouldAddOne(&a.X.Coeff, a.X.Negative, half))[:1]
			}
		}
		return Outcome{Aux: out}
	})
	reg("RounderRound", KCtx2, false, false, true, func(a *Args) Outcome {
		res := a.C.Rounding.Round(a.C, a.D, a.X, a.C.Precision%2 == 0)
		return Outcome{Cond: uint32(res), DVal: DecVal(a.D)}
	})
	reg("Modf", KModf, false, false, true, func(a *Args) Outcome {
		a.X.Modf(a.I, a.F)
		return Outcome{Aux: DecVal(a.I) + "&" + DecVal(a.F)}
	})

	// Decimal methods that write their receiver
	reg("DSet", KDec2, false, false, true, func(a *Args) Outcome {
		r := a.D.Set(a.X)
		return Outcome{Aux: fmt.Sprint(r == a.D), DVal: DecVal(a.D)}
	})
	reg("DNeg", KDec2, false, false, true, func(a *Args) Outcome {
		r := a.D.Neg(a.X)
		return Outcome{Aux: fmt.Sprint(r == a.D), DVal: DecVal(a.D)}
	})
	reg("DAbs", KDec2, false, false, true, func(a *Args) Outcome {
		r := a.D.Abs(a.X)
		return Outcome{Aux: fmt.Sprint(r == a.D), DVal: DecVal(a.D)}
	})
	reg("DReduce", KDec2, false, false, true, func(a *Args) Outcome {
		r, n := a.D.Reduce(a.X)
		return Outcome{Aux: fmt.Sprint(r == a.D, n), DVal: DecVal(a.D)}
	})
	reg("SetInt64", KDecSet, false, false, true, func(a *Args) Outcome {
		a.D.SetInt64(a.N)
		return Outcome{DVal: DecVal(a.D)}
	})
	reg("SetFinite", KDecSet, false, false, true, func(a *Args) Outcome {
		a.D.SetFinite(a.N, int32(a.N%97))
		return Outcome{Aux: DecVal(apd.New(a.N, int32(a.N%97))), DVal: DecVal(a.D)}
	})
	reg("SetFloat64", KDecSet, false, false, true, func(a *Args) Outcome {
		_, err := a.D.SetFloat64(floatArg(a.N))
		if err != nil {
			a.D.SetInt64(0)
			a.D.Exponent = 0
		}
		return Outcome{Err: errText(err), DVal: DecVal(a.D)}
	})
	reg("DSetString", KDecSet, false, false, true, func(a *Args) Outcome {
		_, res, err := a.D.SetString(a.S)
		if err != nil {
			a.D.SetInt64(0)
			a.D.Exponent = 0
		}
		return Outcome{Cond: uint32(res), Err: errText(err), DVal: DecVal(a.D)}
	})
	reg("UnmarshalText", KDecSet, false, false, true, func(a *Args) Outcome {
		in := []byte(a.S)
		err := a.D.UnmarshalText(in)
		if err != nil {
			a.D.SetInt64(0)
			a.D.Exponent = 0
		}
		o := Outcome{Err: errText(err), DVal: DecVal(a.D)}
		if string(in) != a.S {
			o.Self = fmt.Sprintf("UnmarshalText modified its input bytes: %q -> %q", a.S, in)
		}
		return o
	})
	reg("Scan", KDecSet, false, false, true, func(a *Args) Outcome {
		var src interface{}
		switch uint64(a.N) % 4 {
		case 0:
			src = a.S
		case 1:
			src = []byte(a.S)
		case 2:
			src = a.N
		default:
			src = floatArg(a.N)
		}
		err := a.D.Scan(src)
		if err != nil {
			a.D.SetInt64(0)
			a.D.Exponent = 0
		}
		o := Outcome{Err: errText(err), DVal: DecVal(a.D)}
		if b, ok := src.([]byte); ok && string(b) != a.S {
			o.Self = fmt.Sprintf("Scan modified its input bytes: %q -> %q", a.S, b)
		}
		return o
	})
	reg("NullScan", KDecSet, false, false, true, func(a *Args) Outcome {
		var nd apd.NullDecimal
		nd.Decimal.Set(a.D) // the embedded Decimal starts from the destination's prior content
		// ... and so does the Valid flag: a destination that is not the fresh zero
		// value stands for a NullDecimal that an earlier Scan filled
		nd.Valid = a.D.Form != apd.Finite || a.D.Negative || a.D.Exponent != 0 || a.D.Coeff.Sign() != 0
		var src interface{}
		switch uint64(a.N) % 6 {
		case 0:
			src = nil
		case 1:
			src = a.S
		case 2:
			src = []byte(a.S)
		case 3:
			src = a.N
		case 4:
			src = floatArg(a.N)
		default:
			src = true // unsupported type
		}
		err := nd.Scan(src)
		o := Outcome{Err: errText(err), Aux: fmt.Sprint(nd.Valid)}
		if err == nil {
			// after a failed Scan the embedded Decimal is unspecified
			v, err2 := nd.Value()
			o.Aux += fmt.Sprint(" ", v)
			o.Err += errText(err2)
		}
		if err != nil || !nd.Valid {
			a.D.SetInt64(0)
			a.D.Exponent = 0
		} else {
			a.D.Set(&nd.Decimal)
		}
		o.DVal = DecVal(a.D)
		return o
	})
	reg("CondInfo", KRead1, false, false, false, func(a *Args) Outcome {
		c := apd.Condition(uint32(a.N) & 0xfff)
		_, e1 := c.GoError(apd.Condition(uint32(a.N>>12) & 0xfff))
		return Outcome{Aux: fmt.Sprint(c.Any(), c.SystemOverflow(), c.SystemUnderflow(), c.Overflow(), c.Underflow(), c.Inexact(), c.Subnormal(), c.Rounded(),
			c.DivisionUndefined(), c.DivisionByZero(), c.DivisionImpossible(), c.InvalidOperation(), c.Clamped(), c.String(), apd.Form(a.N%5).String(), a.X.Form.String()), Err: errText(e1)}
	})
	reg("Compose", KDec2, false, false, true, func(a *Args) Outcome {
		// round trip X through Decompose/Compose into D
		form, neg, coeff, exp := a.X.Decompose(nil)
		keep := append([]byte(nil), coeff...)
		err := a.D.Compose(form, neg, coeff, exp)
		o := Outcome{Err: errText(err)}
		if string(keep) != string(coeff) {
			o.Self = fmt.Sprintf("Compose modified the coefficient bytes it was given: %x -> %x", keep, coeff)
		}
		// the bytes stay the caller's: overwriting them afterwards must not reach D
		for i := range coeff {
			coeff[i] ^= 0xa5
		}
		if form == 0 {
			o.DVal = DecVal(a.D)
		} else {
			// Compose of a non-finite form leaves coefficient and exponent as
			// they were (unspecified); normalise them
			a.D.Coeff.SetInt64(0)
			a.D.Exponent = 0
			o.DVal = DecVal(a.D)
		}
		return o
	})

	// ErrDecimal wrappers
	e3 := map[string]ed3{
		"Add":        (*apd.ErrDecimal).Add,
		"Sub":        (*apd.ErrDecimal).Sub,
		"Mul":        (*apd.ErrDecimal).Mul,
		"Quo":        (*apd.ErrDecimal).Quo,
		"QuoInteger": (*apd.ErrDecimal).QuoInteger,
		"Rem":        (*apd.ErrDecimal).Rem,
		"Pow":        (*apd.ErrDecimal).Pow,
	}
	for n, f := range e3 {
		f := f
		d := reg("ED"+n, KED3, false, n == "Pow", true, func(a *Args) Outcome {
			r := f(a.ED, a.D, a.X, a.Y)
			return Outcome{Cond: uint32(a.ED.Flags), Err: errText(a.ED.Err()), Aux: fmt.Sprint(r == a.D), DVal: DecVal(a.D)}
		})
		d.CtxName = n
	}
	e2 := map[string]ed2{
		"Abs":                  (*apd.ErrDecimal).Abs,
		"Neg":                  (*apd.ErrDecimal).Neg,
		"Round":                (*apd.ErrDecimal).Round,
		"Sqrt":                 (*apd.ErrDecimal).Sqrt,
		"Exp":                  (*apd.ErrDecimal).Exp,
		"Ln":                   (*apd.ErrDecimal).Ln,
		"Log10":                (*apd.ErrDecimal).Log10,
		"RoundToIntegralValue": (*apd.ErrDecimal).RoundToIntegralValue,
		"RoundToIntegralExact": (*apd.ErrDecimal).RoundToIntegralExact,
		"Ceil":                 (*apd.ErrDecimal).Ceil,
		"Floor":                (*apd.ErrDecimal).Floor,
	}
	for n, f := range e2 {
		f := f
		d := reg("ED"+n, KED2, false, heavy2[n], true, func(a *Args) Outcome {
			r := f(a.ED, a.D, a.X)
			return Outcome{Cond: uint32(a.ED.Flags), Err: errText(a.ED.Err()), Aux: fmt.Sprint(r == a.D), DVal: DecVal(a.D)}
		})
		d.CtxName = n
	}
	reg("EDReduce", KED2, false, false, true, func(a *Args) Outcome {
		n, r := a.ED.Reduce(a.D, a.X)
		return Outcome{Cond: uint32(a.ED.Flags), Err: errText(a.ED.Err()), Aux: fmt.Sprint(r == a.D, n), DVal: DecVal(a.D)}
	}).CtxName = "Reduce"
	reg("EDQuantize", KEDQ, false, false, true, func(a *Args) Outcome {
		r := a.ED.Quantize(a.D, a.X, int32(a.N))
		return Outcome{Cond: uint32(a.ED.Flags), Err: errText(a.ED.Err()), Aux: fmt.Sprint(r == a.D), DVal: DecVal(a.D)}
	}).CtxName = "Quantize"
	reg("EDInt64", KEDI, false, false, false, func(a *Args) Outcome {
		v := a.ED.Int64(a.X)
		return Outcome{Cond: uint32(a.ED.Flags), Err: errText(a.ED.Err()), Aux: fmt.Sprint(v)}
	}).CtxName = "Int64"

	sort.Strings(OpNames)
}

// floatArg maps an integer argument to a float64, special values included.
func floatArg(n int64) float64 {
	switch uint64(n) % 16 {
	case 0:
		return math.NaN()
	case 1:
		return math.Inf(1)
	case 2:
		return math.Inf(-1)
	case 3:
		return math.Copysign(0, -1)
	case 4:
		return math.MaxFloat64
	case 5:
		return math.SmallestNonzeroFloat64
	case 6:
		return -math.Copysign(math.NaN(), -1)
	}
	return float64(n) / 1024
}

var fmtStrings = []string{"%v", "%s", "%e", "%E", "%f", "%F", "%g", "%G", "%12v", "%-14e|", "%+v", "% f", "%020g", "%d", "%+08f"}

type hangSentinel struct{}

// unwound: a call of the code under test was abandoned in the middle (step
// budget or deadlock). Locks it held without defer stay held and caches it was
// filling stay half-filled, so the process must not execute further runs.
var unwound bool

// markUnwound may be called by several task goroutines in one run; like every
// piece of harness state shared between tasks it is touched only in norace code.
//
//go:norace
func markUnwound() { unwound = true }

//go:norace
func peekUnwound() bool { return unwound }

//go:norace
func takeUnwound() bool {
	u := unwound
	unwound = false
	return u
}

// Exec runs one operation under recover.
func Exec(def *OpDef, a *Args) (o Outcome) {
	defer func() {
		if r := recover(); r != nil {
			if _, ok := r.(hangSentinel); ok {
				markUnwound()
				o = Outcome{Hang: true, Panic: "hang: step budget exceeded"}
				return
			}
			if _, ok := r.(deadlockSentinel); ok {
				markUnwound()
				o = Outcome{Hang: true, Deadlock: true, Panic: "deadlock: the task waits for a lock that no runnable task can release"}
				return
			}
			msg := fmt.Sprint(r)
			if i := strings.IndexByte(msg, '\n'); i >= 0 {
				msg = msg[:i]
			}
			o = Outcome{Panic: "panic: " + msg}
		}
	}()
	return def.Run(a)
}

// Env resolves references of a step.
type Env struct {
	Ctxs   []*apd.Context
	Shared []*apd.Decimal
	Regs   []*apd.Decimal
	ED     *apd.ErrDecimal
}

func (e *Env) Ref(r string) *apd.Decimal {
	if r == "" {
		return nil
	}
	var i int
	fmt.Sscanf(r[1:], "%d", &i)
	switch r[0] {
	case 'r':
		return e.Regs[i%len(e.Regs)]
	case 's':
		return e.Shared[i%len(e.Shared)]
	}
	panic("bad ref " + r)
}

func (e *Env) Resolve(st *plan.Step, a *Args) {
	*a = Args{}
	if len(e.Ctxs) > 0 {
		a.C = e.Ctxs[st.Ctx%len(e.Ctxs)]
	}
	a.D = e.Ref(st.D)
	a.X = e.Ref(st.X)
	a.Y = e.Ref(st.Y)
	a.I = e.Ref(st.I)
	a.F = e.Ref(st.F)
	a.N = st.N
	a.S = st.S
	a.ED = e.ED
}
