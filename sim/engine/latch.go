package engine

import (
	"fmt"

	"apdsim/plan"

	apd "github.com/cockroachdb/apd/v3"
)

// C03, workload B: ErrDecimal is an error latch plus a flag accumulator over a
// history of calls. Reference model: an explicit latch driven by calling the
// Context method of the same name on mirror registers.

var latchOps3 = []string{"EDAdd", "EDSub", "EDMul", "EDQuo", "EDQuoInteger", "EDRem", "EDPow"}
var latchOps2 = []string{"EDAbs", "EDNeg", "EDRound", "EDSqrt", "EDExp", "EDLn", "EDLog10", "EDRoundToIntegralValue", "EDRoundToIntegralExact", "EDCeil", "EDFloor", "EDReduce"}

func GenLatch(seed, run uint64, tier string) *plan.Plan {
	r := plan.NewRng(plan.Derive(seed, run, 3031))
	p := &plan.Plan{V: 1, Property: "C03", Workload: "latch", Seed: seed, Run: run}
	maxPrec := uint32(20)
	if r.Chance(1, 6) {
		maxPrec = 34
	}
	c := genNarrowCtx(r, maxPrec)
	switch r.Intn(6) {
	case 0:
		c.Traps = 0
	case 1, 2:
		c.Traps = DefaultTraps
	default:
		c.Traps = genTrapSet(r)
	}
	// a second context: same numbers, another trap set (ErrDecimal.Ctx is an
	// exported field; a caller may tighten or relax the traps mid-sequence)
	c2 := c
	c2.Traps = genTrapSet(r)
	p.Contexts = []plan.Ctx{c, c2}
	nshared := r.Range(3, 8)
	for i := 0; i < nshared; i++ {
		p.Shared = append(p.Shared, genTrapOperand(r))
	}
	var tk plan.Task
	nregs := r.Range(3, 5)
	for i := 0; i < nregs; i++ {
		tk.Regs = append(tk.Regs, genTrapOperand(r))
	}
	n := r.Range(5, 60)
	heavy := r.Chance(1, 2)
	for i := 0; i < n; i++ {
		st := plan.Step{D: fmt.Sprintf("r%d", r.Intn(nregs))}
		opnd := func() string {
			if r.Chance(6, 16) {
				return fmt.Sprintf("s%d", r.Intn(nshared))
			}
			return fmt.Sprintf("r%d", r.Intn(nregs))
		}
		if r.Chance(1, 14) {
			// the caller touches the exported fields of the ErrDecimal
			if r.Bool() {
				tk.Steps = append(tk.Steps, plan.Step{Op: "EDPreset", N: int64(genTrapSet(r))})
			} else {
				tk.Steps = append(tk.Steps, plan.Step{Op: "EDSwapCtx"})
			}
			continue
		}
		for {
			switch k := r.Intn(20); {
			case k < 9:
				st.Op = pick(r, latchOps3)
				st.X, st.Y = opnd(), opnd()
			case k < 17:
				st.Op = pick(r, latchOps2)
				st.X = opnd()
			case k < 19:
				st.Op = "EDQuantize"
				st.X = opnd()
				st.N = int64(r.Range(-10, 5))
			default:
				st.Op = "EDInt64"
				st.X = opnd()
				st.D = ""
			}
			if Ops[st.Op].Heavy && !heavy {
				continue
			}
			break
		}
		tk.Steps = append(tk.Steps, st)
	}
	p.Tasks = []plan.Task{tk}
	return p
}

// latchModel is the reference: explicit flags and first error.
type latchModel struct {
	flags apd.Condition
	err   string
	has   bool
}

func RunLatch(p *plan.Plan) *plan.Result {
	res := &plan.Result{Run: p.Run, Stats: map[string]uint64{}}
	st := res.Stats
	ctxs := []*apd.Context{BuildCtx(p.Contexts[0])}
	if len(p.Contexts) > 1 {
		ctxs = append(ctxs, BuildCtx(p.Contexts[1]))
	}
	cur := 0
	c := ctxs[0]
	tk := &p.Tasks[0]
	mk := func() Env {
		e := Env{Ctxs: []*apd.Context{c}}
		for _, d := range p.Shared {
			e.Shared = append(e.Shared, BuildDec(d))
		}
		for _, d := range tk.Regs {
			e.Regs = append(e.Regs, BuildDec(d))
		}
		return e
	}
	real := mk()
	ed := apd.MakeErrDecimal(c)
	real.ED = &ed
	mirror := mk()
	var m latchModel
	seen := map[string]bool{}
	addViol := func(v plan.Violation) {
		id := v.Class + "|" + v.Key
		if seen[id] || len(res.Violations) >= 6 {
			return
		}
		seen[id] = true
		res.Violations = append(res.Violations, v)
	}
	setMode(modeCount)
	defer setMode(modeOff)
	var a, b Args
	var digest uint64
	tripped := -1
	after := 0
	for si := range tk.Steps {
		step := &tk.Steps[si]
		switch step.Op {
		case "EDPreset":
			// flags set by the caller count like accumulated ones; Err() is
			// deliberately not called here (it would cache the error)
			real.ED.Flags |= apd.Condition(uint32(step.N) & 0xfff)
			m.flags |= apd.Condition(uint32(step.N) & 0xfff)
			st["fault_latch_preset_flags"]++
			continue
		case "EDSwapCtx":
			if len(ctxs) > 1 {
				cur ^= 1
				c = ctxs[cur]
				real.ED.Ctx = c
				real.Ctxs[0] = c
				mirror.Ctxs[0] = c
				st["fault_latch_swap_context"]++
			}
			continue
		}
		def := Ops[step.Op]
		if def == nil || def.CtxName == "" {
			continue
		}
		// the latch trips as soon as the accumulated flags meet the traps in force
		if !m.has {
			if _, err := m.flags.GoError(c.Traps); err != nil {
				m.err, m.has = err.Error(), true
				if tripped < 0 {
					tripped = si
					st["fault_latch_tripped"]++
				}
			}
		}
		// model step
		mirror.Resolve(step, &b)
		var n0 uint64
		wantAux := ""
		if m.has {
			after++
			if step.Op == "EDInt64" {
				wantAux = "0"
			}
			if step.Op == "EDReduce" {
				wantAux = "0"
			}
		} else {
			beginOp(soloOpCap)
			if step.Op == "EDInt64" {
				v, err := b.X.Int64()
				wantAux = fmt.Sprint(v)
				if err != nil {
					m.err, m.has = err.Error(), true
				}
			} else {
				o := Exec(Ops[def.CtxName], &b)
				if o.Hang {
					st["skipped_budget"]++
					break
				}
				if o.Panic != "" {
					// a panicking Context method is not C03's subject; stop the history
					st["panic_in_model"]++
					break
				}
				m.flags |= apd.Condition(o.Cond)
				if step.Op == "EDReduce" {
					wantAux = o.Aux
				}
				if o.Err != "" {
					m.err, m.has = o.Err, true
				}
			}
			n0 = opSteps()
			if !m.has {
				if _, err := m.flags.GoError(c.Traps); err != nil {
					m.err, m.has = err.Error(), true
				}
			}
			if m.has && tripped < 0 {
				tripped = si
				st["fault_latch_tripped"]++
			}
		}
		// real step
		real.Resolve(step, &a)
		beginOp(20*n0 + 2_000_000)
		got := Exec(def, &a)
		st["steps"] += n0 + opSteps()
		st["ops"]++
		st["wrapper_"+step.Op]++
		desc := func() string {
			return fmt.Sprintf("step %d %s ctx=%+v x=%s y=%s n=%d (latch tripped at step %d)\n  ErrDecimal: flags=%d err=%q aux=%q d=%s\n  model:      flags=%d err=%q aux=%q d=%s",
				si, step.Op, *c, DecVal(b.X), DecVal(b.Y), step.N, tripped, got.Cond, got.Err, got.Aux, got.DVal, uint32(m.flags), m.err, wantAux, DecVal(b.D))
		}
		if got.Hang {
			addViol(plan.Violation{Property: "C03", Class: "C03/latch-hang/" + step.Op, Key: "hang", Step: si, Detail: "wrapper did not return within the step budget\n" + desc()})
			break
		}
		if got.Panic != "" {
			addViol(plan.Violation{Property: "C03", Class: "C03/latch-panic/" + step.Op, Key: "panic", Step: si, Detail: "wrapper panicked: " + got.Panic + "\n" + desc()})
			break
		}
		if apd.Condition(got.Cond) != m.flags {
			addViol(plan.Violation{Property: "C03", Class: "C03/latch-flags/" + step.Op, Key: "flags", Step: si, Detail: "accumulated flags differ from the model\n" + desc()})
		}
		if got.Err != m.err {
			addViol(plan.Violation{Property: "C03", Class: "C03/latch-error/" + step.Op, Key: "err", Step: si, Detail: "Err() differs from the model\n" + desc()})
		}
		// destinations: every register must equal its mirror (an untouched
		// destination after the first error is part of this)
		for i := range real.Regs {
			if DecVal(real.Regs[i]) != DecVal(mirror.Regs[i]) {
				cls := "C03/latch-dest/"
				if m.has && tripped < si {
					cls = "C03/latch-dest-after-error/"
				}
				addViol(plan.Violation{Property: "C03", Class: cls + step.Op, Key: "dest", Step: si,
					Detail: fmt.Sprintf("register r%d differs from the model after the step: %s vs %s\n%s", i, DecVal(real.Regs[i]), DecVal(mirror.Regs[i]), desc())})
				// resynchronise
				real.Regs[i].Set(mirror.Regs[i])
			}
		}
		switch step.Op {
		case "EDInt64":
			if got.Aux != wantAux {
				addViol(plan.Violation{Property: "C03", Class: "C03/latch-aux/" + step.Op, Key: "aux", Step: si, Detail: "returned value differs from the model\n" + desc()})
			}
		case "EDReduce":
			// aux = "<ret==d> <n>"
			var ok bool
			var n int
			fmt.Sscan(got.Aux, &ok, &n)
			var wn int
			fmt.Sscan(wantAux, &wn)
			if n != wn {
				addViol(plan.Violation{Property: "C03", Class: "C03/latch-aux/" + step.Op, Key: "aux", Step: si, Detail: "returned count differs from the model\n" + desc()})
			}
		}
		digest = plan.Mix(digest ^ hashString(got.String()))
		if len(res.Violations) > 0 {
			break
		}
	}
	if tripped >= 0 && after > 0 {
		res.Nontrivial = true
		st["fault_latch_calls_after_error"] += uint64(after)
	}
	if globalSnap != nil {
		if d := globalSnap.Check(); d != "" {
			st["globals_changed"]++
		}
	}
	res.Digest = fmt.Sprintf("%016x", digest)
	res.Sig = planSig(p)
	return res
}
