package engine

import (
	"fmt"
	"math/big"
	"strings"

	"apdsim/plan"
)

// Generators for worlds: contexts, operands, programs. Everything is drawn
// from a plan.Rng; nothing else is a source of choice.

var precisions = []uint32{1, 2, 3, 5, 7, 9, 16, 20, 34, 60, 100, 130, 200}

type erange struct{ max, min int32 }

var eranges = []erange{{5, -5}, {20, -20}, {384, -383}, {6144, -6143}, {100000, -100000}, {40, 0}, {9, -40}, {100000, -5}}

func two(n uint) *big.Int { return new(big.Int).Lsh(big.NewInt(1), n) }

var boundaryCoeffs = func() []string {
	var out []string
	add := func(b *big.Int) {
		if b.Sign() >= 0 {
			out = append(out, b.String())
		}
	}
	for _, n := range []uint{32, 63, 64, 127, 128} {
		for d := int64(-1); d <= 1; d++ {
			add(new(big.Int).Add(two(n), big.NewInt(d)))
		}
	}
	for _, s := range []string{"0", "1", "2", "5", "9", "10", "15", "25", "49", "50", "51", "99", "100", "101", "125", "500", "999", "1000", "12345", "99999", "100000",
		"123456789", "999999999", "1000000000", "9999999999999999", "10000000000000000", "99999999999999999999", "18446744073709551615", "18446744073709551616",
		"99999999999999999999999999999999999999", "100000000000000000000000000000000000000", "340282366920938463463374607431768211455", "340282366920938463463374607431768211456",
		strings.Repeat("9", 40), "1" + strings.Repeat("0", 40), strings.Repeat("123456789", 7), strings.Repeat("9", 77), "5" + strings.Repeat("0", 59) + "1", strings.Repeat("7", 130), strings.Repeat("31415926535", 30)} {
		out = append(out, s)
	}
	return out
}()

func randDigits(r *plan.Rng, n int) string {
	var sb strings.Builder
	for i := 0; i < n; i++ {
		d := r.Intn(10)
		if i == 0 && d == 0 && n > 1 {
			d = 1 + r.Intn(9)
		}
		sb.WriteByte(byte('0' + d))
	}
	return sb.String()
}

// GenCoeff draws a coefficient text.
func GenCoeff(r *plan.Rng) string {
	switch r.Intn(10) {
	case 0, 1, 2:
		return boundaryCoeffs[r.Intn(len(boundaryCoeffs))]
	case 3, 4, 5:
		return randDigits(r, 1+r.Intn(6))
	case 6, 7:
		return randDigits(r, 1+r.Intn(24))
	case 8:
		return randDigits(r, 30+r.Intn(40))
	default:
		if r.Chance(1, 3) {
			// perfect squares and cubes of long numbers (exact roots, also with
			// heap-backed coefficients)
			n := bigFromText(randDigits(r, 3+r.Intn(24)))
			p := new(big.Int).Mul(n, n)
			if r.Bool() {
				p.Mul(p, n)
			}
			return p.String()
		}
		// ties and all-nines shapes
		switch r.Intn(4) {
		case 0:
			return randDigits(r, 1+r.Intn(8)) + "5" + strings.Repeat("0", r.Intn(12))
		case 1:
			return strings.Repeat("9", 1+r.Intn(30))
		case 2:
			return "1" + strings.Repeat("0", r.Intn(30)) + "1"
		default:
			return randDigits(r, 2+r.Intn(5)) + strings.Repeat("0", 1+r.Intn(10))
		}
	}
}

// GenExp draws an exponent. wide allows exponents near the package limits;
// otherwise exponents stay small so that upscale gaps are cheap.
func GenExp(r *plan.Rng, wide bool) int32 {
	switch r.Intn(12) {
	case 0, 1, 2, 3:
		return 0
	case 4, 5, 6:
		return int32(r.Range(-6, 6))
	case 7, 8:
		return int32(r.Range(-40, 40))
	case 9:
		return int32(r.Range(-400, 400))
	case 10:
		if wide {
			return int32(r.Range(-7000, 7000))
		}
		return int32(r.Range(-130, 130))
	default:
		if wide && r.Chance(1, 4) {
			v := []int32{100000, -100000, 99999, -99999, 99990, -99990, 6144, -6143, 384, -383}
			return v[r.Intn(len(v))]
		}
		return int32(r.Range(-200, 200))
	}
}

// GenDec draws an operand description.
func GenDec(r *plan.Rng, wide bool) plan.Dec {
	d := plan.Dec{Coeff: "0"}
	switch r.Intn(24) {
	case 0:
		d.Form = 3 // NaN
		d.Neg = r.Chance(1, 3)
		if r.Bool() {
			d.Coeff = randDigits(r, 1+r.Intn(5))
		}
		if r.Chance(1, 4) {
			d.Coeff = GenCoeff(r) // payloads may be long (heap-backed)
		}
		return d
	case 1:
		d.Form = 2 // sNaN
		d.Neg = r.Chance(1, 3)
		if r.Bool() {
			d.Coeff = randDigits(r, 1+r.Intn(5))
		}
		if r.Chance(1, 4) {
			d.Coeff = GenCoeff(r)
		}
		return d
	case 2:
		d.Form = 1
		d.Neg = r.Bool()
		return d
	case 3, 4:
		// zeros with exponents
		d.Neg = r.Bool()
		d.Exp = GenExp(r, wide)
		d.Heap = r.Chance(1, 6)
		return d
	case 5:
		// 1 ± ε, values near one
		k := 1 + r.Intn(20)
		if r.Bool() {
			d.Coeff = "1" + strings.Repeat("0", k-1) + "1"
		} else {
			d.Coeff = strings.Repeat("9", k)
		}
		d.Exp = int32(-k)
		d.Neg = r.Chance(1, 5)
		return d
	case 6:
		// |x| < 0.1
		d.Coeff = randDigits(r, 1+r.Intn(4))
		d.Exp = int32(-(len(d.Coeff) + 1 + r.Intn(6)))
		d.Neg = r.Bool()
		return d
	case 8:
		// exact squares / cubes / sixth powers (exact roots), often beyond 128 bits
		n := bigFromText(randDigits(r, 2+r.Intn(22)))
		p := new(big.Int).Mul(n, n)
		switch r.Intn(3) {
		case 0:
			p.Mul(p, n)
		case 1:
			p.Mul(p, n)
			p.Mul(p, p)
		}
		d.Coeff = p.String()
		d.Exp = []int32{0, 0, 6, -6, 12, -12, 3, -2}[r.Intn(8)]
		d.Neg = r.Chance(1, 6)
		return d
	case 7:
		// small integers
		d.Coeff = fmt.Sprint(r.Intn(12))
		d.Neg = r.Chance(1, 3)
		d.Heap = r.Chance(1, 5)
		return d
	}
	d.Coeff = GenCoeff(r)
	d.Neg = r.Chance(1, 3)
	d.Exp = GenExp(r, wide)
	// small values in heap representation arise after shrinking a huge value
	d.Heap = r.Chance(1, 7)
	// keep the adjusted exponent inside the package limits
	adj := int64(d.Exp) + int64(len(d.Coeff)) - 1
	if adj > 100000 || adj < -100000 {
		d.Exp = 0
	}
	return d
}

// GenCtx draws a context.
func GenCtx(r *plan.Rng, traps uint32, maxPrec uint32) plan.Ctx {
	var p uint32
	for {
		p = precisions[r.Intn(len(precisions))]
		if p <= maxPrec {
			break
		}
	}
	er := eranges[r.Intn(len(eranges))]
	if int32(p) > er.max {
		er = erange{384, -383}
		if int32(p) > er.max {
			er = erange{100000, -100000}
		}
	}
	if r.Chance(1, 24) {
		// Precision 0 (as in BaseContext): no rounding; several operations refuse it
		p = 0
	}
	c := plan.Ctx{P: p, Emax: er.max, Emin: er.min, Traps: traps, Round: RounderNames[r.Intn(len(RounderNames))]}
	if r.Chance(1, 25) {
		// exponent limits beyond the package's own (as the GDA test files use)
		c.Emax, c.Emin = 999999999, -999999999
	}
	return c
}

var parseStrings = []string{"0", "-0", "1", "-1.5", "12.345", "1e5", "-1E-5", "1.23456789012345678901234567890e10", "Inf", "-Infinity", "NaN", "sNaN", "nan123", "snan7",
	"1e100000", "1e-100000", "9.999999e99999", "1e100001", "123456789012345678901234567890123456789012345", ".5", "5.", "", "abc", "1e", "--1", "+3", "0.000", "0e-10", "1_0", "1e+5", "+.e1", "١", "1.2.3", "e5", "0x10",
	"340282366920938463463374607431768211455", "340282366920938463463374607431768211456", "18446744073709551616", "-9223372036854775808", "9223372036854775807", "0.1", "0.05", "-0.09", "99.5", "0.5e1"}

func GenParseString(r *plan.Rng) string {
	if r.Chance(2, 3) {
		return parseStrings[r.Intn(len(parseStrings))]
	}
	s := ""
	if r.Chance(1, 3) {
		s = "-"
	}
	s += randDigits(r, 1+r.Intn(12))
	if r.Bool() {
		s += "." + randDigits(r, r.Intn(10))
	}
	if r.Chance(1, 3) {
		s += fmt.Sprintf("e%d", r.Range(-50, 50))
	}
	return s
}

// Sibling derives an operand related to d: same number of digits (fresh random
// digits), same or neighbouring exponent. Pairs of this kind reach paths that
// independent operands almost never do (equal digit counts in Quo, equal
// adjusted exponents in Cmp, cancellation in Sub).
func Sibling(r *plan.Rng, d plan.Dec) plan.Dec {
	s := d
	if d.Form != 0 {
		return s
	}
	n := len(d.Coeff)
	switch r.Intn(4) {
	case 0:
		s.Coeff = randDigits(r, n)
	case 1:
		// same leading digits, different tail
		k := n / 2
		s.Coeff = d.Coeff[:k] + randDigits(r, n-k)
		if len(s.Coeff) > 1 && s.Coeff[0] == '0' {
			s.Coeff = "1" + s.Coeff[1:]
		}
	case 2:
		// same value, different representation (trailing zeros moved into the exponent)
		z := r.Intn(4)
		if r.Chance(1, 4) {
			// exponent gaps beyond the static power-of-ten table
			z = []int{20, 129, 130, 200, 300}[r.Intn(5)]
		}
		s.Coeff = d.Coeff + strings.Repeat("0", z)
		s.Exp = d.Exp - int32(z)
	default:
		s.Coeff = randDigits(r, n)
		s.Exp = d.Exp + int32(r.Range(-2, 2))
	}
	if r.Chance(1, 10) {
		// a partner at the other end of the exponent range: the exponent gap
		// exceeds the package limit (system-limit error paths)
		s.Coeff = randDigits(r, 1+r.Intn(3))
		if d.Exp >= 0 {
			s.Exp = int32(-r.Range(99990, 100000))
		} else {
			s.Exp = int32(r.Range(99990, 100000))
		}
	}
	if r.Chance(1, 4) {
		s.Neg = !d.Neg
	}
	s.Heap = d.Heap || r.Chance(1, 6)
	return s
}

// ExactPowerText returns the decimal text of n^k (k = 2 or 3) scaled by a power
// of ten that keeps it an exact k-th power, with n long enough, often, for the
// power to exceed 128 bits.
func ExactPowerText(r *plan.Rng, k int) string {
	n := bigFromText(randDigits(r, 1+r.Intn(24)))
	p := new(big.Int).Set(n)
	for i := 1; i < k; i++ {
		p.Mul(p, n)
	}
	e := k * r.Range(-3, 3)
	s := p.String()
	if r.Chance(1, 5) {
		s = "-" + s
	}
	return fmt.Sprintf("%sE%d", s, e)
}
