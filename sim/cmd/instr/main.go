// Command instr rewrites a scratch copy of the apd package in place:
//
//   - inserts a yield call `verifY(<site>)` before every statement of every
//     function body and function literal in the non-test files (skipping
//     `init` functions and functions carrying //go:nosplit);
//   - brackets Lock/RLock/Unlock/RUnlock/(*sync.Once).Do calls with a lock-depth
//     counter so that the cooperative scheduler never parks a task that holds a
//     lock;
//   - optionally replaces the value of tuning constants (knobs);
//   - generates zz_verif_hooks.go (yield function, hook variable, site table)
//     and zz_verif_access.go (pointers to every package-level variable found in
//     the tree under test, representation accessor for BigInt), all guarded by
//     the build tag `verif`.
//
// The insertion is textual (at statement start offsets) so everything else in
// the file, including compiler directives and comments, stays byte-identical.
package main

import (
	"bytes"
	"flag"
	"fmt"
	"go/ast"
	"go/importer"
	"go/parser"
	"go/token"
	"go/types"
	"os"
	"path/filepath"
	"sort"
	"strings"
)

var builtinCallee = map[string]bool{"close": true, "panic": true, "print": true, "println": true, "delete": true, "copy": true, "recover": true, "clear": true}

type insertion struct {
	off  int
	text string
	ord  int
}

type site struct {
	file string
	line int
	fn   string
	hot  bool
	sync bool // follows a statement that used a lock, an atomic or a function that does
}

var (
	sites        []site
	poolRewrites int
	// syncFuncs: names of functions / methods of the package whose body uses a
	// lock, a sync.Once or an atomic operation (one level, by name).
	syncFuncs = map[string]bool{}
	// mapRanges: "file:offset of for" of range statements over maps
	mapRanges    = map[string]bool{}
	mapRewrites  int
	recvRewrites int // receive expressions wrapped
	blockWraps   int // statements bracketed as possibly blocking (channel ops, Cond/WaitGroup)
	goRewrites   int
	goStmts      int // go statements in the tree under test (their goroutines are not scheduled by the simulator)
)

func main() {
	dir := flag.String("dir", "", "directory holding the scratch copy of package apd")
	knobs := flag.String("knobs", "", "comma separated const=value replacements, e.g. powerTenTableSize=16")
	flag.Parse()
	if *dir == "" {
		fmt.Fprintln(os.Stderr, "instr: -dir required")
		os.Exit(2)
	}
	knobMap := map[string]string{}
	if *knobs != "" {
		for _, kv := range strings.Split(*knobs, ",") {
			p := strings.SplitN(kv, "=", 2)
			if len(p) == 2 {
				knobMap[p[0]] = p[1]
			}
		}
	}
	entries, err := os.ReadDir(*dir)
	if err != nil {
		fatal(err)
	}
	var files []string
	for _, e := range entries {
		n := e.Name()
		if e.IsDir() || !strings.HasSuffix(n, ".go") || strings.HasSuffix(n, "_test.go") || strings.HasPrefix(n, "zz_verif") {
			continue
		}
		files = append(files, n)
	}
	sort.Strings(files)

	// pre-pass: which functions of the package synchronise? which range
	// statements iterate over a map?
	{
		pf := token.NewFileSet()
		var pfiles []*ast.File
		for _, name := range files {
			f, err := parser.ParseFile(pf, filepath.Join(*dir, name), nil, 0)
			if err != nil {
				fatal(err)
			}
			pfiles = append(pfiles, f)
			for _, d := range f.Decls {
				if fd, ok := d.(*ast.FuncDecl); ok && fd.Body != nil && usesSyncPrimitive(fd.Body) {
					syncFuncs[fd.Name.Name] = true
				}
			}
		}
		info := &types.Info{Types: map[ast.Expr]types.TypeAndValue{}}
		conf := types.Config{Importer: importer.ForCompiler(pf, "source", nil), Error: func(error) {}}
		if _, err := conf.Check("apd", pf, pfiles, info); err != nil {
			fmt.Fprintf(os.Stderr, "instr: type check incomplete (%v); map iteration is left as it is\n", err)
		}
		for i, f := range pfiles {
			name := files[i]
			ast.Inspect(f, func(n ast.Node) bool {
				rs, ok := n.(*ast.RangeStmt)
				if !ok {
					return true
				}
				tv, ok := info.Types[rs.X]
				if !ok || tv.Type == nil {
					return true
				}
				if _, isMap := tv.Type.Underlying().(*types.Map); isMap {
					mapRanges[fmt.Sprintf("%s:%d", name, pf.Position(rs.For).Offset)] = true
				}
				return true
			})
		}
	}

	fset := token.NewFileSet()
	var globals []string
	pkgName := ""
	knobApplied := map[string]bool{}
	hasBigIntInner := false
	hasNegSentinel := false
	for _, name := range files {
		path := filepath.Join(*dir, name)
		src, err := os.ReadFile(path)
		if err != nil {
			fatal(err)
		}
		f, err := parser.ParseFile(fset, path, src, parser.ParseComments)
		if err != nil {
			fatal(err)
		}
		if pkgName == "" {
			pkgName = f.Name.Name
		}
		var ins []insertion
		ord := 0
		add := func(pos token.Pos, text string) {
			ins = append(ins, insertion{off: fset.Position(pos).Offset, text: text, ord: ord})
			ord++
		}
		// package-level state and knobs
		for _, d := range f.Decls {
			gd, ok := d.(*ast.GenDecl)
			if !ok {
				continue
			}
			for _, sp := range gd.Specs {
				switch s := sp.(type) {
				case *ast.ValueSpec:
					if gd.Tok == token.VAR {
						for _, id := range s.Names {
							if id.Name != "_" {
								globals = append(globals, id.Name)
								if id.Name == "negSentinel" {
									hasNegSentinel = true
								}
							}
						}
					}
					if gd.Tok == token.CONST {
						for i, id := range s.Names {
							if v, ok := knobMap[id.Name]; ok && i < len(s.Values) {
								b := fset.Position(s.Values[i].Pos()).Offset
								e := fset.Position(s.Values[i].End()).Offset
								// replace by deleting old text and inserting the new
								ins = append(ins, insertion{off: b, text: "\x00" + fmt.Sprint(e-b) + "\x00" + v, ord: ord})
								ord++
								knobApplied[id.Name] = true
							}
						}
					}
				case *ast.TypeSpec:
					if s.Name.Name == "BigInt" {
						if st, ok := s.Type.(*ast.StructType); ok {
							for _, fl := range st.Fields.List {
								for _, id := range fl.Names {
									if id.Name == "_inner" {
										hasBigIntInner = true
									}
								}
							}
						}
					}
				}
			}
		}
		// sync.Pool drops and keeps objects depending on GC timing and, in race
		// builds, on an unseeded random number: a source of nondeterminism the
		// simulator must own. It is replaced by a deterministic LIFO pool with
		// the same happens-before semantics (Put(x) -> the Get that returns x).
		pools := 0
		rewrite := map[string]string{"Pool": "verifPool", "Mutex": "verifMutex", "RWMutex": "verifRWMutex", "Cond": "verifCond", "NewCond": "verifNewCond"}
		ast.Inspect(f, func(n ast.Node) bool {
			se, ok := n.(*ast.SelectorExpr)
			if !ok {
				return true
			}
			if id, ok := se.X.(*ast.Ident); ok && id.Name == "sync" {
				if to, ok := rewrite[se.Sel.Name]; ok {
					b := fset.Position(se.Pos()).Offset
					e := fset.Position(se.End()).Offset
					ins = append(ins, insertion{off: b, text: "\x00" + fmt.Sprint(e-b) + "\x00" + to, ord: ord})
					ord++
					pools++
				}
			}
			return true
		})
		if pools > 0 {
			ins = append(ins, insertion{off: len(src), text: "\nvar _ sync.Locker // keep the import used after the sync.Pool / Mutex / RWMutex rewrite\n", ord: ord})
			ord++
			poolRewrites += pools
		}
		// Map iteration order is randomised by the runtime: another source of
		// nondeterminism the simulator must own. `for k, v := range m` over a map
		// becomes an iteration over the sorted keys (entries deleted meanwhile
		// are skipped, entries added are not visited: both allowed by the spec).
		ast.Inspect(f, func(n ast.Node) bool {
			rs, ok := n.(*ast.RangeStmt)
			if !ok || !mapRanges[fmt.Sprintf("%s:%d", name, fset.Position(rs.For).Offset)] {
				return true
			}
			pure := true
			ast.Inspect(rs.X, func(x ast.Node) bool {
				switch x.(type) {
				case *ast.CallExpr, *ast.IndexExpr, *ast.FuncLit, *ast.UnaryExpr:
					pure = false
				}
				return pure
			})
			keyName, valName := "", ""
			if rs.Key != nil {
				id, ok := rs.Key.(*ast.Ident)
				if !ok {
					return true
				}
				keyName = id.Name
			}
			if rs.Value != nil {
				id, ok := rs.Value.(*ast.Ident)
				if !ok {
					return true
				}
				valName = id.Name
			}
			if !pure {
				return true
			}
			mapRewrites++
			k := mapRewrites
			m := string(src[fset.Position(rs.X.Pos()).Offset:fset.Position(rs.X.End()).Offset])
			tok := rs.Tok.String()
			if rs.Key == nil {
				tok = ":="
			}
			hdr := fmt.Sprintf("for _, verifK%d := range verifSortedKeys(%s) { verifV%d, verifOK%d := (%s)[verifK%d]; _ = verifV%d; if !verifOK%d { continue }; ", k, m, k, k, m, k, k, k)
			if keyName != "" && keyName != "_" {
				hdr += fmt.Sprintf("%s %s verifK%d; ", keyName, tok, k)
				if tok == ":=" {
					hdr += fmt.Sprintf("_ = %s; ", keyName)
				}
			}
			if valName != "" && valName != "_" {
				hdr += fmt.Sprintf("%s %s verifV%d; ", valName, tok, k)
				if tok == ":=" {
					hdr += fmt.Sprintf("_ = %s; ", valName)
				}
			}
			b := fset.Position(rs.For).Offset
			e := fset.Position(rs.Body.Lbrace).Offset + 1
			ins = append(ins, insertion{off: b, text: "\x00" + fmt.Sprint(e-b) + "\x00" + hdr, ord: 1 << 30})
			return true
		})
		// receive expressions outside select communications become calls of a
		// generic helper that brackets just the receive: `<-ch` -> verifRecv(ch),
		// `v, ok := <-ch` -> `v, ok := verifRecv2(ch)`
		{
			skip := map[ast.Node]bool{}
			two := map[ast.Node]bool{}
			ast.Inspect(f, func(n ast.Node) bool {
				switch x := n.(type) {
				case *ast.CommClause:
					if x.Comm != nil {
						skip[x.Comm] = true
					}
				case *ast.AssignStmt:
					if len(x.Lhs) == 2 && len(x.Rhs) == 1 {
						if u, ok := x.Rhs[0].(*ast.UnaryExpr); ok && u.Op == token.ARROW {
							two[u] = true
						}
					}
				case *ast.ValueSpec:
					if len(x.Names) == 2 && len(x.Values) == 1 {
						if u, ok := x.Values[0].(*ast.UnaryExpr); ok && u.Op == token.ARROW {
							two[u] = true
						}
					}
				}
				return true
			})
			ast.Inspect(f, func(n ast.Node) bool {
				if n == nil {
					return true
				}
				if skip[n] {
					return false
				}
				u, ok := n.(*ast.UnaryExpr)
				if !ok || u.Op != token.ARROW {
					return true
				}
				name := "verifRecv("
				if two[u] {
					name = "verifRecv2("
				}
				ins = append(ins, insertion{off: fset.Position(u.OpPos).Offset, text: "\x002\x00" + name, ord: 1 << 29})
				ins = append(ins, insertion{off: fset.Position(u.X.End()).Offset, text: ")", ord: -(1 << 29)})
				recvRewrites++
				return true
			})
		}
		// go statements become child tasks of the simulator. The function value
		// and the arguments are evaluated by the parent at the go statement, as
		// the language says: `go func(p T){B}(a)` becomes
		// `verifGo(func(p T) func() { return func() {B} }(a))`; any other callee
		// goes through a reflective helper, `verifGoCall(f, a, b)`. Built-in
		// callees (`go close(ch)`) are left alone: they run no code of the tree.
		ast.Inspect(f, func(n ast.Node) bool {
			gs, ok := n.(*ast.GoStmt)
			if !ok {
				return true
			}
			goStmts++
			b := fset.Position(gs.Go).Offset
			lp := fset.Position(gs.Call.Lparen).Offset
			rp := fset.Position(gs.Call.Rparen).Offset
			lit, isLit := gs.Call.Fun.(*ast.FuncLit)
			switch {
			case isLit && lit.Type.Results == nil && len(gs.Call.Args) == 0:
				ins = append(ins, insertion{off: b, text: "\x002\x00verifGo(", ord: 1 << 30})
				ins = append(ins, insertion{off: lp, text: "\x00" + fmt.Sprint(rp+1-lp) + "\x00)", ord: 1 << 30})
				goRewrites++
			case isLit && lit.Type.Results == nil:
				ins = append(ins, insertion{off: b, text: "\x002\x00verifGo(", ord: 1 << 30})
				ins = append(ins, insertion{off: fset.Position(lit.Body.Lbrace).Offset, text: " func() { return func() ", ord: -(1 << 30)})
				ins = append(ins, insertion{off: fset.Position(lit.Body.Rbrace).Offset + 1, text: " }", ord: -(1 << 30)})
				ins = append(ins, insertion{off: rp + 1, text: ")", ord: 1 << 30})
				goRewrites++
			default:
				if id, isIdent := gs.Call.Fun.(*ast.Ident); isIdent && builtinCallee[id.Name] {
					break
				}
				helper := "verifGoCall("
				if gs.Call.Ellipsis.IsValid() {
					helper = "verifGoCallSlice("
				}
				ins = append(ins, insertion{off: b, text: "\x002\x00" + helper, ord: 1 << 30})
				if len(gs.Call.Args) == 0 {
					ins = append(ins, insertion{off: lp, text: "\x00" + fmt.Sprint(rp+1-lp) + "\x00)", ord: 1 << 30})
				} else {
					ins = append(ins, insertion{off: lp, text: "\x001\x00, ", ord: 1 << 30})
					if gs.Call.Ellipsis.IsValid() {
						ins = append(ins, insertion{off: fset.Position(gs.Call.Ellipsis).Offset, text: "\x003\x00", ord: 1 << 30})
					}
				}
				goRewrites++
			}
			return true
		})
		// yields
		for _, d := range f.Decls {
			fd, ok := d.(*ast.FuncDecl)
			if !ok || fd.Body == nil {
				continue
			}
			if fd.Recv == nil && fd.Name.Name == "init" {
				continue
			}
			if hasDirective(fd.Doc, "//go:nosplit") || hasDirective(fd.Doc, "//go:norace") {
				continue
			}
			fname := fd.Name.Name
			if fd.Recv != nil && len(fd.Recv.List) > 0 {
				fname = recvName(fd.Recv.List[0].Type) + "." + fname
			}
			instrumentBody(fset, name, fname, fd.Body, add)
		}
		if len(ins) == 0 {
			continue
		}
		out := apply(src, ins)
		if err := os.WriteFile(path, out, 0o644); err != nil {
			fatal(err)
		}
	}
	for k := range knobMap {
		if !knobApplied[k] {
			fmt.Fprintf(os.Stderr, "instr: knob %s not found in tree; skipped\n", k)
		}
	}
	if pkgName == "" {
		fatal(fmt.Errorf("no Go files in %s", *dir))
	}
	sort.Strings(globals)
	writeHooks(*dir, pkgName)
	writeRaceShims(*dir, pkgName)
	writeAccess(*dir, pkgName, globals, hasBigIntInner && hasNegSentinel)
	fmt.Printf("instr: %d files, %d yield sites, %d package-level vars, %d sync.{Pool,Mutex,RWMutex} rewrites, %d map-range rewrites, %d blocking statements bracketed, %d of %d go statements rewritten, knobs=%v\n", len(files), len(sites), len(globals), poolRewrites, mapRewrites, blockWraps, goRewrites, goStmts, knobApplied)
}

func fatal(err error) {
	fmt.Fprintln(os.Stderr, "instr:", err)
	os.Exit(2)
}

func hasDirective(cg *ast.CommentGroup, dir string) bool {
	if cg == nil {
		return false
	}
	for _, c := range cg.List {
		if strings.HasPrefix(c.Text, dir) {
			return true
		}
	}
	return false
}

func recvName(e ast.Expr) string {
	switch t := e.(type) {
	case *ast.StarExpr:
		return recvName(t.X)
	case *ast.Ident:
		return t.Name
	case *ast.IndexExpr:
		return recvName(t.X)
	}
	return "?"
}

// callsNamed reports whether n contains a call whose function name (identifier
// or selector) is one of names.
func callsNamed(n ast.Node, names ...string) bool {
	found := false
	ast.Inspect(n, func(x ast.Node) bool {
		if found {
			return false
		}
		if _, ok := x.(*ast.FuncLit); ok {
			return false
		}
		c, ok := x.(*ast.CallExpr)
		if !ok {
			return true
		}
		var nm string
		switch f := c.Fun.(type) {
		case *ast.Ident:
			nm = f.Name
		case *ast.SelectorExpr:
			nm = f.Sel.Name
		}
		for _, w := range names {
			if nm == w {
				found = true
			}
		}
		return true
	})
	return found
}

func selCallName(e ast.Expr) string {
	c, ok := e.(*ast.CallExpr)
	if !ok {
		return ""
	}
	s, ok := c.Fun.(*ast.SelectorExpr)
	if !ok {
		return ""
	}
	return s.Sel.Name
}

var syncPrimitives = map[string]bool{"Lock": true, "RLock": true, "Unlock": true, "RUnlock": true, "TryLock": true, "Do": true,
	"Load": true, "Store": true, "Swap": true, "CompareAndSwap": true, "Wait": true, "Signal": true, "Broadcast": true}

// usesSyncPrimitive reports whether n directly calls a lock, sync.Once, cond
// or atomic operation.
func usesSyncPrimitive(n ast.Node) bool {
	found := false
	ast.Inspect(n, func(x ast.Node) bool {
		if found {
			return false
		}
		c, ok := x.(*ast.CallExpr)
		if !ok {
			return true
		}
		if se, ok := c.Fun.(*ast.SelectorExpr); ok {
			if syncPrimitives[se.Sel.Name] {
				found = true
			}
			if id, ok := se.X.(*ast.Ident); ok && id.Name == "atomic" {
				found = true
			}
		}
		return true
	})
	return found
}

// stmtSyncs reports whether n uses a synchronisation primitive directly or
// calls (by name) a function of the package that does.
func stmtSyncs(n ast.Node) bool {
	if n == nil {
		return false
	}
	if usesSyncPrimitive(n) {
		return true
	}
	found := false
	ast.Inspect(n, func(x ast.Node) bool {
		if found {
			return false
		}
		c, ok := x.(*ast.CallExpr)
		if !ok {
			return true
		}
		switch f := c.Fun.(type) {
		case *ast.Ident:
			found = syncFuncs[f.Name]
		case *ast.SelectorExpr:
			found = syncFuncs[f.Sel.Name]
		}
		return true
	})
	return found
}

// blockingSimple reports whether st is a simple statement (no nested blocks, no
// calls into the package) that performs a channel operation or waits on / wakes
// a sync.Cond or sync.WaitGroup. Such statements are bracketed so that the
// simulator knows the task may park in the Go runtime there.
func blockingSimple(st ast.Stmt) bool {
	switch st.(type) {
	case *ast.ExprStmt, *ast.AssignStmt, *ast.SendStmt, *ast.IncDecStmt:
	default:
		return false
	}
	found, simple := false, true
	if _, ok := st.(*ast.SendStmt); ok {
		found = true
	}
	ast.Inspect(st, func(x ast.Node) bool {
		switch n := x.(type) {
		case *ast.FuncLit:
			simple = false
			return false
		case *ast.CallExpr:
			switch f := n.Fun.(type) {
			case *ast.Ident:
				switch f.Name {
				case "close":
					found = true
				case "len", "cap", "make", "new":
				default:
					if !predeclaredType[f.Name] {
						simple = false
					}
				}
			case *ast.SelectorExpr:
				switch f.Sel.Name {
				case "Wait", "Signal", "Broadcast", "Done":
					found = true
				default:
					simple = false
				}
			default:
				simple = false
			}
		}
		return true
	})
	return found && simple
}

var predeclaredType = map[string]bool{"int": true, "int8": true, "int16": true, "int32": true, "int64": true, "uint": true, "uint8": true, "uint16": true, "uint32": true, "uint64": true,
	"uintptr": true, "byte": true, "rune": true, "string": true, "bool": true, "float32": true, "float64": true, "error": true}

// selectSimple reports whether every communication of the select statement is
// free of calls into the package (built-ins and conversions are fine): the task
// may park in the Go runtime between the bracket's opening in front of the
// statement and its closing at the head of whichever clause is chosen.
func selectSimple(sel *ast.SelectStmt) bool {
	simple := true
	for _, c := range sel.Body.List {
		cc, ok := c.(*ast.CommClause)
		if !ok {
			return false
		}
		if cc.Comm == nil {
			continue
		}
		ast.Inspect(cc.Comm, func(x ast.Node) bool {
			switch n := x.(type) {
			case *ast.FuncLit:
				simple = false
				return false
			case *ast.CallExpr:
				f, isIdent := n.Fun.(*ast.Ident)
				if !isIdent || !(predeclaredType[f.Name] || f.Name == "len" || f.Name == "cap" || f.Name == "make" || f.Name == "new") {
					simple = false
				}
			}
			return true
		})
	}
	return simple
}

// firstSync: the statement list about to be instrumented is the body of an
// if / for whose header synchronised (check-then-act windows).
var firstSync bool

func instrumentBody(fset *token.FileSet, file, fn string, body *ast.BlockStmt, add func(token.Pos, string)) {
	var doList func(list []ast.Stmt)
	var walk func(n ast.Node)
	doList = func(list []ast.Stmt) {
		prevHot := false
		prevSync := firstSync
		for _, st := range list {
			id := len(sites)
			p := fset.Position(st.Pos())
			sites = append(sites, site{file: file, line: p.Line, fn: fn, hot: prevHot, sync: prevSync})
			text := fmt.Sprintf("verifY(%d); ", id)
			// lock discipline
			switch s := st.(type) {
			case *ast.ExprStmt:
				switch selCallName(s.X) {
				case "Do":
					text += "verifLk(1); "
					add(s.End(), "; verifLk(-1)")
				}
			}
			if blockingSimple(st) {
				blockWraps++
				text += fmt.Sprintf("verifTok%d := verifBkEnter(); ", id)
				add(st.End(), fmt.Sprintf("; verifBkLeave(verifTok%d)", id))
			}
			if sel, ok := st.(*ast.SelectStmt); ok && selectSimple(sel) {
				blockWraps++
				text += fmt.Sprintf("verifTok%d := verifBkEnter(); _ = verifTok%d; ", id, id)
				for _, c := range sel.Body.List {
					add(c.(*ast.CommClause).Colon+1, fmt.Sprintf(" verifBkLeave(verifTok%d); ", id))
				}
			}
			add(st.Pos(), text)
			// a statement that obtained a pointer into shared package state
			prevHot = callsNamed(st, "tableExp10", "exp10", "get")
			prevSync = stmtSyncs(st)
			walk(st)
		}
	}
	walk = func(n ast.Node) {
		ast.Inspect(n, func(x ast.Node) bool {
			switch b := x.(type) {
			case *ast.IfStmt:
				hs := false
				if b.Init != nil {
					walk(b.Init)
					hs = hs || stmtSyncs(b.Init)
				}
				walk(b.Cond)
				hs = hs || stmtSyncs(b.Cond)
				firstSync = hs
				doList(b.Body.List)
				firstSync = false
				if b.Else != nil {
					if eb, ok := b.Else.(*ast.BlockStmt); ok {
						firstSync = hs
						doList(eb.List)
						firstSync = false
					} else {
						walk(b.Else)
					}
				}
				return false
			case *ast.SwitchStmt:
				if b.Init != nil {
					walk(b.Init)
				}
				if b.Tag != nil {
					walk(b.Tag)
				}
				for _, c := range b.Body.List {
					walk(c)
				}
				return false
			case *ast.TypeSwitchStmt:
				if b.Init != nil {
					walk(b.Init)
				}
				walk(b.Assign)
				for _, c := range b.Body.List {
					walk(c)
				}
				return false
			case *ast.SelectStmt:
				for _, c := range b.Body.List {
					walk(c)
				}
				return false
			case *ast.BlockStmt:
				if b == nil {
					return false
				}
				doList(b.List)
				return false
			case *ast.CaseClause:
				for _, e := range b.List {
					walk(e)
				}
				doList(b.Body)
				return false
			case *ast.CommClause:
				doList(b.Body)
				return false
			}
			return true
		})
	}
	doList(body.List)
}

func apply(src []byte, ins []insertion) []byte {
	sort.SliceStable(ins, func(i, j int) bool {
		if ins[i].off != ins[j].off {
			return ins[i].off < ins[j].off
		}
		return ins[i].ord < ins[j].ord
	})
	var out bytes.Buffer
	pos := 0
	for _, in := range ins {
		if in.off < pos {
			// inside a replaced region; drop
			continue
		}
		out.Write(src[pos:in.off])
		pos = in.off
		if strings.HasPrefix(in.text, "\x00") {
			parts := strings.SplitN(in.text[1:], "\x00", 2)
			var n int
			fmt.Sscan(parts[0], &n)
			out.WriteString(parts[1])
			pos += n
			continue
		}
		out.WriteString(in.text)
	}
	out.Write(src[pos:])
	return out.Bytes()
}

func writeHooks(dir, pkg string) {
	var b bytes.Buffer
	fmt.Fprintf(&b, "//go:build verif\n\n// Code generated by /verif/sim/cmd/instr. DO NOT EDIT.\n\npackage %s\n\nimport (\n\t\"fmt\"\n\t\"reflect\"\n\t\"sort\"\n\t\"unsafe\"\n)\n\n", pkg)
	b.WriteString(`// VerifHook, when non-nil, is called at every yield point. It must be a
// //go:norace function.
var VerifHook func(site int32)

// VerifSteps counts executed yield points.
var VerifSteps uint64

var verifLkDepth int32

//go:norace
func verifY(site int32) {
	VerifSteps++
	if h := VerifHook; h != nil && verifLkDepth == 0 {
		h(site)
	}
}

//go:norace
func verifLk(d int32) { verifLkDepth += d }

// verifPool replaces sync.Pool in the instrumented copy: deterministic LIFO,
// never dropped by the GC or at random. It has no yield point inside, so under
// the cooperative scheduler Get and Put are atomic; the per-object
// happens-before edge of sync.Pool (Put(x) -> the Get returning x) is
// reproduced for the race detector, and nothing else is.
type verifPool struct {
	New   func() interface{}
	items []interface{}
}

//go:norace
func (p *verifPool) Get() interface{} {
	if n := len(p.items); n > 0 {
		x := p.items[n-1]
		p.items[n-1] = nil
		p.items = p.items[:n-1]
		verifRaceAcquire(verifDataPtr(x))
		return x
	}
	if p.New != nil {
		return p.New()
	}
	return nil
}

//go:norace
func (p *verifPool) Put(x interface{}) {
	if x == nil {
		return
	}
	verifRaceRelease(verifDataPtr(x))
	p.items = append(p.items, x)
}

//go:norace
func verifDataPtr(x interface{}) unsafe.Pointer {
	return (*[2]unsafe.Pointer)(unsafe.Pointer(&x))[1]
}

// Simulated locks. sync.Mutex and sync.RWMutex of the tree under test are
// replaced by these in the instrumented copy, so that lock acquisition is a
// scheduling point the simulator owns: a task that cannot take a lock is
// descheduled by the simulator (never parked by the Go runtime), tasks may be
// preempted inside critical sections, and a state in which every live task
// waits for a lock is reported as a deadlock. Happens-before edges for the race
// detector are those of the real primitives.
var VerifWait func(addr unsafe.Pointer)
var VerifWake func(addr unsafe.Pointer)

//go:norace
func verifBlock(addr unsafe.Pointer) {
	if VerifWait == nil {
		panic("apd (instrumented): a lock is held and no simulation is active")
	}
	VerifWait(addr)
}

//go:norace
func verifUnblock(addr unsafe.Pointer) {
	if VerifWake != nil {
		VerifWake(addr)
	}
}

// VerifGo starts fn as a child task of the simulator (a go statement of the
// tree under test).
var VerifGo func(fn func())

//go:norace
func verifGo(fn func()) {
	if VerifGo != nil {
		VerifGo(fn)
		return
	}
	go fn()
}

// verifRecv / verifRecv2 are receive expressions of the tree under test: the
// task may park in the Go runtime here, and only here.
func verifRecv[T any](ch <-chan T) T {
	tok := verifBkEnter()
	v := <-ch
	verifBkLeave(tok)
	return v
}

func verifRecv2[T any](ch <-chan T) (T, bool) {
	tok := verifBkEnter()
	v, ok := <-ch
	verifBkLeave(tok)
	return v, ok
}

// verifGoCall is the go statement with a callee that is not a function literal:
// callee and arguments have been evaluated by the parent; the call itself runs
// in the child task. Untyped constant arguments arrive with their default type
// and are converted to the parameter type, as the compiler would have done.
func verifGoCall(f interface{}, args ...interface{})      { verifGoReflect(f, args, false) }
func verifGoCallSlice(f interface{}, args ...interface{}) { verifGoReflect(f, args, true) }

func verifGoReflect(f interface{}, args []interface{}, spread bool) {
	fv := reflect.ValueOf(f)
	ft := fv.Type()
	in := make([]reflect.Value, len(args))
	for i, a := range args {
		pt := ft.In(ft.NumIn() - 1)
		if i < ft.NumIn()-1 || !ft.IsVariadic() {
			pt = ft.In(i)
		} else if !(spread && i == len(args)-1) {
			pt = pt.Elem()
		}
		v := reflect.ValueOf(a)
		if !v.IsValid() {
			v = reflect.Zero(pt)
		} else if v.Type() != pt && pt.Kind() != reflect.Interface && v.Type().ConvertibleTo(pt) {
			v = v.Convert(pt)
		}
		in[i] = v
	}
	verifGo(func() {
		if spread {
			fv.CallSlice(in)
		} else {
			fv.Call(in)
		}
	})
}

// VerifBkEnter / VerifBkLeave bracket simple statements that may park the task
// in the Go runtime (channel operations, sync.Cond, sync.WaitGroup).
var VerifBkEnter func() int32
var VerifBkLeave func(tok int32)

//go:norace
func verifBkEnter() int32 {
	if VerifBkEnter != nil {
		return VerifBkEnter()
	}
	return -1
}

//go:norace
func verifBkLeave(tok int32) {
	if VerifBkLeave != nil && tok != -1 {
		VerifBkLeave(tok)
	}
}

type verifMutex struct {
	held bool
	pad  uint8
}

//go:norace
func (m *verifMutex) Lock() {
	for m.held {
		verifBlock(unsafe.Pointer(m))
	}
	m.held = true
	verifRaceAcquire(unsafe.Pointer(m))
}

//go:norace
func (m *verifMutex) TryLock() bool {
	if m.held {
		return false
	}
	m.held = true
	verifRaceAcquire(unsafe.Pointer(m))
	return true
}

//go:norace
func (m *verifMutex) Unlock() {
	if !m.held {
		panic("sync: unlock of unlocked mutex")
	}
	verifRaceRelease(unsafe.Pointer(m))
	m.held = false
	verifUnblock(unsafe.Pointer(m))
}

// verifRWMutex has Go's writer preference: once a writer waits, new readers
// wait too (so a recursive read lock can deadlock, as with sync.RWMutex).
type verifRWMutex struct {
	readers        int32
	writersWaiting int32
	writer         bool
	rsem, wsem     uint8
}

//go:norace
func (m *verifRWMutex) RLock() {
	for m.writer || m.writersWaiting > 0 {
		verifBlock(unsafe.Pointer(m))
	}
	m.readers++
	verifRaceAcquire(unsafe.Pointer(&m.rsem))
}

//go:norace
func (m *verifRWMutex) TryRLock() bool {
	if m.writer || m.writersWaiting > 0 {
		return false
	}
	m.readers++
	verifRaceAcquire(unsafe.Pointer(&m.rsem))
	return true
}

//go:norace
func (m *verifRWMutex) RUnlock() {
	if m.readers <= 0 {
		panic("sync: RUnlock of unlocked RWMutex")
	}
	verifRaceRelease(unsafe.Pointer(&m.wsem))
	m.readers--
	verifUnblock(unsafe.Pointer(m))
}

//go:norace
func (m *verifRWMutex) Lock() {
	m.writersWaiting++
	for m.writer || m.readers > 0 {
		verifBlock(unsafe.Pointer(m))
	}
	m.writersWaiting--
	m.writer = true
	verifRaceAcquire(unsafe.Pointer(&m.rsem))
	verifRaceAcquire(unsafe.Pointer(&m.wsem))
}

//go:norace
func (m *verifRWMutex) TryLock() bool {
	if m.writer || m.readers > 0 {
		return false
	}
	m.writer = true
	verifRaceAcquire(unsafe.Pointer(&m.rsem))
	verifRaceAcquire(unsafe.Pointer(&m.wsem))
	return true
}

//go:norace
func (m *verifRWMutex) Unlock() {
	if !m.writer {
		panic("sync: Unlock of unlocked RWMutex")
	}
	verifRaceRelease(unsafe.Pointer(&m.rsem))
	verifRaceRelease(unsafe.Pointer(&m.wsem))
	m.writer = false
	verifUnblock(unsafe.Pointer(m))
}

// verifCond replaces sync.Cond: waiting is a simulated wait (the task is
// descheduled by the simulator, never parked by the Go runtime), so the lock it
// re-acquires on wake-up is taken by the task that holds the processor.
type verifCond struct {
	L interface {
		Lock()
		Unlock()
	}
	ticket, released uint64
}

func verifNewCond(l interface {
	Lock()
	Unlock()
}) *verifCond {
	return &verifCond{L: l}
}

//go:norace
func (c *verifCond) Wait() {
	t := c.ticket
	c.ticket++
	c.L.Unlock()
	for c.released <= t {
		verifBlock(unsafe.Pointer(c))
	}
	c.L.Lock()
}

//go:norace
func (c *verifCond) Signal() {
	if c.released < c.ticket {
		c.released++
		verifUnblock(unsafe.Pointer(c))
	}
}

//go:norace
func (c *verifCond) Broadcast() {
	if c.released < c.ticket {
		c.released = c.ticket
		verifUnblock(unsafe.Pointer(c))
	}
}

type verifRLocker verifRWMutex

func (r *verifRLocker) Lock()   { (*verifRWMutex)(r).RLock() }
func (r *verifRLocker) Unlock() { (*verifRWMutex)(r).RUnlock() }

// RLocker mirrors (*sync.RWMutex).RLocker.
func (m *verifRWMutex) RLocker() interface {
	Lock()
	Unlock()
} {
	return (*verifRLocker)(m)
}

// verifSortedKeys returns the keys of m in a deterministic order.
func verifSortedKeys[K comparable, V any](m map[K]V) []K {
	keys := make([]K, 0, len(m))
	for k := range m {
		keys = append(keys, k)
	}
	sort.Slice(keys, func(i, j int) bool { return verifKeyLess(keys[i], keys[j]) })
	return keys
}

func verifKeyLess(a, b interface{}) bool {
	switch x := a.(type) {
	case int:
		return x < b.(int)
	case int32:
		return x < b.(int32)
	case int64:
		return x < b.(int64)
	case uint:
		return x < b.(uint)
	case uint32:
		return x < b.(uint32)
	case uint64:
		return x < b.(uint64)
	case string:
		return x < b.(string)
	}
	return fmt.Sprint(a) < fmt.Sprint(b)
}

// VerifSite describes one yield site.
type VerifSite struct {
	File string
	Line int
	Func string
	Hot  bool
	Sync bool
}

// VerifSites is the table of yield sites, indexed by site id.
var VerifSites = []VerifSite{
`)
	for _, s := range sites {
		fmt.Fprintf(&b, "\t{%q, %d, %q, %v, %v},\n", s.file, s.line, s.fn, s.hot, s.sync)
	}
	b.WriteString("}\n")
	fmt.Fprintf(&b, "\n// VerifGoStmts is the number of go statements in the tree under test (their\n// goroutines are not scheduled by the simulator).\nconst VerifGoStmts = %d\n", goStmts)
	if err := os.WriteFile(filepath.Join(dir, "zz_verif_hooks.go"), b.Bytes(), 0o644); err != nil {
		fatal(err)
	}
}

func writeRaceShims(dir, pkg string) {
	race := fmt.Sprintf("//go:build verif && race\n\n// Code generated by /verif/sim/cmd/instr. DO NOT EDIT.\n\npackage %s\n\nimport (\n\t\"runtime\"\n\t\"unsafe\"\n)\n\n//go:norace\nfunc verifRaceAcquire(p unsafe.Pointer) {\n\tif p != nil {\n\t\truntime.RaceAcquire(p)\n\t}\n}\n\n//go:norace\nfunc verifRaceRelease(p unsafe.Pointer) {\n\tif p != nil {\n\t\truntime.RaceReleaseMerge(p)\n\t}\n}\n", pkg)
	norace := fmt.Sprintf("//go:build verif && !race\n\n// Code generated by /verif/sim/cmd/instr. DO NOT EDIT.\n\npackage %s\n\nimport \"unsafe\"\n\nfunc verifRaceAcquire(p unsafe.Pointer) {}\nfunc verifRaceRelease(p unsafe.Pointer) {}\n", pkg)
	if err := os.WriteFile(filepath.Join(dir, "zz_verif_race.go"), []byte(race), 0o644); err != nil {
		fatal(err)
	}
	if err := os.WriteFile(filepath.Join(dir, "zz_verif_norace.go"), []byte(norace), 0o644); err != nil {
		fatal(err)
	}
}

func writeAccess(dir, pkg string, globals []string, bigIntKnown bool) {
	var b bytes.Buffer
	fmt.Fprintf(&b, "//go:build verif\n\n// Code generated by /verif/sim/cmd/instr. DO NOT EDIT.\n\npackage %s\n\n", pkg)
	b.WriteString("import (\n\t\"math/big\"\n\t\"unsafe\"\n)\n\n")
	b.WriteString(`// VerifGlobal names one package-level variable of the tree under test.
type VerifGlobal struct {
	Name string
	Ptr  interface{}
}

// VerifGlobals returns a pointer to every package-level variable.
//go:norace
func VerifGlobals() []VerifGlobal {
	return []VerifGlobal{
`)
	for _, g := range globals {
		fmt.Fprintf(&b, "\t\t{%q, &%s},\n", g, g)
	}
	b.WriteString("\t}\n}\n\n")
	b.WriteString(`// VerifBigRepr is the raw representation of a BigInt.
type VerifBigRepr struct {
	Known    bool // accessor understood the representation
	Inline   bool // value lives in the inline array
	Sentinel bool // inline and flagged negative
	Words    [4]big.Word
	NWords   int
	Heap     []big.Word     // heap words (aliases the live slice; read-only use)
	HeapNeg  bool
	HeapPtr  unsafe.Pointer // identity of the heap big.Int
	HeapData unsafe.Pointer // identity of the heap backing array
}

var _ = unsafe.Pointer(nil)
var _ big.Word

`)
	if bigIntKnown {
		b.WriteString(`// VerifRepr exposes the representation state of z without touching it.
//go:norace
func VerifRepr(z *BigInt) VerifBigRepr {
	var r VerifBigRepr
	r.Known = true
	r.NWords = len(z._inline)
	for i := 0; i < len(z._inline) && i < len(r.Words); i++ {
		r.Words[i] = z._inline[i]
	}
	if z._inner == nil {
		r.Inline = true
		return r
	}
	if z._inner == negSentinel {
		r.Inline = true
		r.Sentinel = true
		return r
	}
	s := (*struct {
		neg bool
		abs []big.Word
	})(unsafe.Pointer(z._inner))
	r.Heap = s.abs
	r.HeapNeg = s.neg
	r.HeapPtr = unsafe.Pointer(z._inner)
	if cap(s.abs) > 0 {
		r.HeapData = unsafe.Pointer(&s.abs[:1][0])
	}
	return r
}
`)
	} else {
		b.WriteString(`// VerifRepr: the BigInt representation of this tree is not the one the
// accessor knows; only Known=false is reported.
func VerifRepr(z *BigInt) VerifBigRepr { return VerifBigRepr{} }
`)
	}
	if err := os.WriteFile(filepath.Join(dir, "zz_verif_access.go"), b.Bytes(), 0o644); err != nil {
		fatal(err)
	}
}
