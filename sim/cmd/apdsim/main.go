// Command apdsim is both the driver and the worker of the deterministic
// simulator for cockroachdb/apd. It is built from /verif/sim against an
// instrumented scratch copy of /repo's working tree by /verif/check.
package main

import (
	"bufio"
	"encoding/json"
	"flag"
	"fmt"
	"os"
	"path/filepath"
	"runtime"
	"sync/atomic"

	"apdsim/driver"
	"apdsim/engine"
	"apdsim/plan"
)

func main() {
	if len(os.Args) < 2 {
		fmt.Fprintln(os.Stderr, "usage: apdsim driver|worker|exec|plan ...")
		os.Exit(2)
	}
	switch os.Args[1] {
	case "driver":
		os.Exit(driver.Main(os.Args[2:]))
	case "worker":
		runtime.GOMAXPROCS(1)
		workerMain(os.Args[2:])
	case "exec":
		runtime.GOMAXPROCS(1)
		execMain(os.Args[2:])
	case "plan":
		runtime.GOMAXPROCS(1)
		planMain(os.Args[2:])
	case "rehist":
		runtime.GOMAXPROCS(1)
		rehistMain(os.Args[2:])
	default:
		fmt.Fprintln(os.Stderr, "unknown mode", os.Args[1])
		os.Exit(2)
	}
}

func setup() {
	engine.InitGlobals()
	engine.InstallHook()
}

// workerMain executes runs [from,to) of a workload, printing BEGIN/END lines.
func workerMain(args []string) {
	fs := flag.NewFlagSet("worker", flag.ExitOnError)
	wl := fs.String("wl", "", "workload")
	mode := fs.String("mode", "", "workload mode")
	seed := fs.Uint64("seed", 1, "seed")
	from := fs.Uint64("from", 0, "first run index")
	to := fs.Uint64("to", 1, "one past last run index")
	stride := fs.Uint64("stride", 1, "run index stride")
	tier := fs.String("tier", "quick", "tier")
	violDir := fs.String("violdir", "", "directory for plans of failing runs")
	keep := fs.Bool("evlog", false, "print the full switch log of every run (determinism self-test)")
	deadline := fs.Int64("deadline", 0, "unix time after which no new run is started")
	samples := fs.Int("samples", 0, "print the plan of the first N runs as SAMPLE lines")
	histlog := fs.String("histlog", "", "append every clean-room evaluation of the register machine to this file")
	fs.Parse(args)
	setup()
	if *histlog != "" {
		if err := engine.SetHistoryLog(*histlog); err != nil {
			fmt.Fprintln(os.Stderr, "worker:", err)
			os.Exit(2)
		}
	}
	out := bufio.NewWriterSize(os.Stdout, 1<<16)
	defer out.Flush()
	var current atomic.Uint64
	engine.StartStallMonitor(func() {
		fmt.Fprintf(os.Stdout, "STALL %d\n", current.Load())
		os.Exit(4)
	}, func(solo bool) {
		fmt.Fprintf(os.Stdout, "UNBOUNDED-WAIT %d solo=%v\n", current.Load(), solo)
		if solo {
			os.Exit(6)
		}
		os.Exit(5)
	})
	for run := *from; run < *to; run += *stride {
		if *deadline != 0 && engine.Now() > *deadline {
			break
		}
		current.Store(run)
		fmt.Fprintf(out, "BEGIN %d\n", run)
		out.Flush()
		p, res := engine.GenAndRun(*wl, *mode, *seed, run, *tier, *keep)
		if len(res.Violations) > 0 && *violDir != "" {
			path := filepath.Join(*violDir, fmt.Sprintf("%s-%d-%d.json", p.Property, *seed, run))
			p.Class = res.Violations[0].Class
			p.Detail = res.Violations[0].Detail
			if err := p.Save(path); err == nil {
				fmt.Fprintf(out, "PLAN %d %s\n", run, path)
			}
		}
		if *samples > 0 {
			*samples--
			b, _ := json.Marshal(engine.SamplePlan(p))
			fmt.Fprintf(out, "SAMPLE %s\n", b)
		}
		if *keep {
			for _, l := range engine.EventLog() {
				fmt.Fprintf(out, "EV %d %s\n", run, l)
			}
		}
		b, _ := json.Marshal(res)
		fmt.Fprintf(out, "END %d %s\n", run, b)
		out.Flush()
		if engine.Poisoned(res) {
			// package-level state of this process is corrupted: later runs must
			// not inherit it. The driver restarts a fresh worker after this run.
			sb, _ := json.Marshal(engine.ProcessStats())
			fmt.Fprintf(out, "STATS %s\n", sb)
			fmt.Fprintf(out, "RESTART %d\n", run)
			out.Flush()
			os.Exit(3)
		}
	}
	b, _ := json.Marshal(engine.ProcessStats())
	fmt.Fprintf(out, "STATS %s\n", b)
	if *wl == "c18" {
		fmt.Fprintf(out, "PAIRS %x\n", engine.SitePairBitmap())
	}
	fmt.Fprintf(out, "SITES %x\n", engine.SiteHits())
	if *from == 0 {
		b, _ := json.Marshal(engine.SiteNames())
		fmt.Fprintf(out, "SITENAMES %s\n", b)
	}
}

// execMain executes one plan file (replay / minimisation candidate).
func execMain(args []string) {
	fs := flag.NewFlagSet("exec", flag.ExitOnError)
	path := fs.String("plan", "", "plan file")
	keep := fs.Bool("evlog", false, "print the switch log")
	fs.Parse(args)
	p, err := plan.Load(*path)
	if err != nil {
		fmt.Fprintln(os.Stderr, "exec:", err)
		os.Exit(2)
	}
	setup()
	engine.StartStallMonitor(func() {
		fmt.Printf("STALL %d\n", p.Run)
		os.Exit(4)
	}, func(solo bool) {
		fmt.Printf("UNBOUNDED-WAIT %d solo=%v\n", p.Run, solo)
		if solo {
			os.Exit(6)
		}
		os.Exit(5)
	})
	fmt.Printf("BEGIN %d\n", p.Run)
	res := engine.RunPlan(p, *keep)
	if *keep {
		for _, l := range engine.EventLog() {
			fmt.Printf("EV %d %s\n", p.Run, l)
		}
	}
	b, _ := json.Marshal(res)
	fmt.Printf("END %d %s\n", p.Run, b)
}

// planMain materialises the plan of (workload, seed, run) including the
// schedule, without executing the concurrent phase, and writes it to a file.
func planMain(args []string) {
	fs := flag.NewFlagSet("plan", flag.ExitOnError)
	wl := fs.String("wl", "", "workload")
	mode := fs.String("mode", "", "workload mode")
	seed := fs.Uint64("seed", 1, "seed")
	run := fs.Uint64("run", 0, "run index")
	tier := fs.String("tier", "quick", "tier")
	out := fs.String("out", "", "output file")
	fs.Parse(args)
	setup()
	p := engine.Materialise(*wl, *mode, *seed, *run, *tier)
	if err := p.Save(*out); err != nil {
		fmt.Fprintln(os.Stderr, "plan:", err)
		os.Exit(2)
	}
}

// rehistMain re-evaluates a history log in shuffled order in a fresh process.
func rehistMain(args []string) {
	fs := flag.NewFlagSet("rehist", flag.ExitOnError)
	in := fs.String("in", "", "history log")
	seed := fs.Uint64("seed", 1, "shuffle seed")
	max := fs.Int("max", 0, "evaluate at most this many records")
	fs.Parse(args)
	setup()
	n, viols, err := engine.ReHistory(*in, *seed, *max)
	if err != nil {
		fmt.Fprintln(os.Stderr, "rehist:", err)
		os.Exit(2)
	}
	res := plan.Result{Violations: viols, Stats: map[string]uint64{"records": uint64(n)}}
	b, _ := json.Marshal(res)
	fmt.Printf("END 0 %s\n", b)
}
