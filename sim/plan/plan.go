// Package plan holds the data that fully determines one simulated run. A plan
// is produced from (seed, run index) by the generators in package engine, is
// materialised as JSON before execution, and execution is a pure function of
// (plan, tree under test). It imports nothing from apd so that the driver can
// manipulate (shrink) plans without linking the code under test.
package plan

import (
	"encoding/json"
	"fmt"
	"os"
)

// Rng is splitmix64. It is the only source of choices in the simulator.
type Rng struct{ S uint64 }

func Mix(x uint64) uint64 {
	x += 0x9e3779b97f4a7c15
	z := x
	z = (z ^ (z >> 30)) * 0xbf58476d1ce4e5b9
	z = (z ^ (z >> 27)) * 0x94d049bb133111eb
	return z ^ (z >> 31)
}

// Derive gives an independent stream for (seed, a, b).
func Derive(seed uint64, a, b uint64) uint64 {
	return Mix(Mix(seed^0x5851f42d4c957f2d) ^ Mix(a*0x2545F4914F6CDD1D+b+1))
}

func NewRng(seed uint64) *Rng { return &Rng{S: seed} }

func (r *Rng) U64() uint64 {
	r.S += 0x9e3779b97f4a7c15
	z := r.S
	z = (z ^ (z >> 30)) * 0xbf58476d1ce4e5b9
	z = (z ^ (z >> 27)) * 0x94d049bb133111eb
	return z ^ (z >> 31)
}

// Intn returns a value in [0,n). n must be > 0.
func (r *Rng) Intn(n int) int {
	if n <= 1 {
		return 0
	}
	return int(r.U64() % uint64(n))
}

func (r *Rng) Bool() bool { return r.U64()&1 == 1 }

// Chance returns true with probability num/den.
func (r *Rng) Chance(num, den int) bool { return r.Intn(den) < num }

// Range returns a value in [lo,hi].
func (r *Rng) Range(lo, hi int) int {
	if hi <= lo {
		return lo
	}
	return lo + r.Intn(hi-lo+1)
}

// Dec is a structural description of a Decimal. Representation is part of the
// state being explored, so it is explicit.
type Dec struct {
	Form  int    `json:"form"` // 0 finite, 1 infinite, 2 sNaN, 3 NaN
	Neg   bool   `json:"neg,omitempty"`
	Coeff string `json:"coeff"` // decimal text, non-negative
	Exp   int32  `json:"exp"`
	Heap  bool   `json:"heap,omitempty"` // force heap representation of the coefficient
}

func (d Dec) Key() string {
	h := ""
	if d.Heap {
		h = "h"
	}
	s := ""
	if d.Neg {
		s = "-"
	}
	return fmt.Sprintf("%d:%s%se%d%s", d.Form, s, d.Coeff, d.Exp, h)
}

// Ctx describes a Context.
type Ctx struct {
	P     uint32 `json:"p"`
	Emax  int32  `json:"emax"`
	Emin  int32  `json:"emin"`
	Traps uint32 `json:"traps"`
	Round string `json:"round"`
	Base  bool   `json:"base,omitempty"` // use &apd.BaseContext itself
}

// Step is one operation of a task program.
type Step struct {
	Op     string  `json:"op"`
	Ctx    int     `json:"ctx"`
	D      string  `json:"d,omitempty"` // destination ref: "r<i>"
	X      string  `json:"x,omitempty"` // operand refs: "r<i>" private, "s<i>" shared
	Y      string  `json:"y,omitempty"`
	I      string  `json:"i,omitempty"` // Modf integ ref ("" = nil)
	F      string  `json:"f,omitempty"` // Modf frac ref ("" = nil)
	N      int64   `json:"n,omitempty"` // integer argument (exponent, precision, int64 value)
	S      string  `json:"s,omitempty"` // string argument
	Poison string  `json:"poison,omitempty"`
	Traps  *uint32 `json:"traps,omitempty"` // per-step trap set (C03)
}

// Preempt deschedules Task when its local yield counter reaches At and hands
// the processor to task To.
type Preempt struct {
	Task int    `json:"task"`
	At   uint64 `json:"at"`
	To   int    `json:"to"`
}

type Schedule struct {
	First   int       `json:"first"`
	Preempt []Preempt `json:"preempt"`
}

type Task struct {
	Regs  []Dec  `json:"regs"`
	Steps []Step `json:"steps"`
}

// BigStep is one operation of the BigInt register machine (C16).
type BigStep struct {
	Op string `json:"op"`
	Z  int    `json:"z"`           // receiver register (-1 = nil receiver where allowed)
	X  int    `json:"x,omitempty"` // argument registers (-1 = nil)
	Y  int    `json:"y,omitempty"`
	M  int    `json:"m,omitempty"`
	W  int    `json:"w,omitempty"`
	N  int64  `json:"n,omitempty"`  // integer argument
	K  int64  `json:"k,omitempty"`  // second integer argument
	S  string `json:"s,omitempty"`  // text / bytes (hex for byte args)
	F  string `json:"f,omitempty"`  // fault kind for stream/bytes steps
	FK int    `json:"fk,omitempty"` // fault position
}

// BigReg seeds a BigInt register.
type BigReg struct {
	V    string `json:"v"` // decimal text with sign
	Heap bool   `json:"heap,omitempty"`
}

// Ref names a generated run: (workload, mode, seed, run, tier) determine its
// plan completely.
type Ref struct {
	Workload string `json:"workload"`
	Mode     string `json:"mode,omitempty"`
	Seed     uint64 `json:"seed"`
	Run      uint64 `json:"run"`
	Tier     string `json:"tier,omitempty"`
}

// Plan is one simulated run.
type Plan struct {
	V        int               `json:"v"`
	Property string            `json:"property"`
	Workload string            `json:"workload"` // c18 | reg (C05/C06) | trap | latch | big
	Mode     string            `json:"mode,omitempty"`
	Seed     uint64            `json:"seed"`
	Run      uint64            `json:"run"`
	Knobs    map[string]string `json:"knobs,omitempty"`
	Race     bool              `json:"race,omitempty"`
	Cold     bool              `json:"cold,omitempty"` // C18: concurrent phase first (cold process state), solo baselines afterwards
	Contexts []Ctx             `json:"contexts,omitempty"`
	Shared   []Dec             `json:"shared,omitempty"`
	Tasks    []Task            `json:"tasks,omitempty"`
	Schedule *Schedule         `json:"schedule,omitempty"`
	BigRegs  []BigReg          `json:"bigregs,omitempty"`
	BigSteps []BigStep         `json:"bigsteps,omitempty"`
	// Prelude: runs executed earlier by the same worker process, to be
	// re-executed (in this order, in the same fresh process) before this plan.
	// Only needed when the tree under test keeps state across calls, so that a
	// failure depends on what the process did before (then the single plan does
	// not reproduce it and the driver adds the prelude).
	Prelude []Ref `json:"prelude,omitempty"`
	// Filled in when a violation is recorded.
	Class   string          `json:"class,omitempty"`
	Detail  string          `json:"detail,omitempty"`
	FoundAt json.RawMessage `json:"found_at,omitempty"`
}

func Load(path string) (*Plan, error) {
	b, err := os.ReadFile(path)
	if err != nil {
		return nil, err
	}
	var p Plan
	if err := json.Unmarshal(b, &p); err != nil {
		return nil, err
	}
	return &p, nil
}

func (p *Plan) Save(path string) error {
	b, err := json.MarshalIndent(p, "", " ")
	if err != nil {
		return err
	}
	return os.WriteFile(path, b, 0o644)
}

func (p *Plan) Clone() *Plan {
	b, _ := json.Marshal(p)
	var q Plan
	_ = json.Unmarshal(b, &q)
	return &q
}

// Violation is what a worker reports for one failing run.
type Violation struct {
	Property string `json:"property"`
	Class    string `json:"class"`  // property/oracle/op/pattern — stable identity for minimisation
	Key      string `json:"key"`    // finer identity used by known_findings
	Detail   string `json:"detail"` // human readable
	Task     int    `json:"task"`
	Step     int    `json:"step"`
}

// Result is what a worker prints for one executed plan.
type Result struct {
	Run        uint64            `json:"run"`
	Digest     string            `json:"digest"`
	Violations []Violation       `json:"violations,omitempty"`
	Stats      map[string]uint64 `json:"stats,omitempty"`
	Sig        string            `json:"sig,omitempty"` // plan signature for distinctness
	Nontrivial bool              `json:"nontrivial,omitempty"`
}
