package driver

import (
	"bytes"
	"encoding/json"
	"fmt"
	"os"
	"os/exec"
	"path/filepath"
	"sort"
	"strings"
)

var ruleText = map[string]string{
	"C18": "one evaluation = one simulated run: a world (shared Context pool, shared operand pool, K task programs with private registers) and a schedule, all derived from splitmix64(VERIF_SEED, run). Tasks are executed solo (baseline), then concurrently under the planned schedule by the norace spin scheduler with the race detector on (race jobs) or off (value jobs). A run is non-trivial when at least one planned preemption landed strictly inside an operation that was reading a shared operand while another task was runnable; distinct = distinct hash of (programs, schedule).",
	"C06": "one evaluation = one simulated run of the one-task register machine: a history of operations over a register file; before each step the destination holds a poisoned or inherited prior value and is never aliased to an operand; each step is compared with a clean-room call on fresh copies, all non-destination registers / shared entries / contexts are compared bit for bit, package state is deep-compared against its post-init snapshot. Non-trivial = the run contains at least one step whose destination held a non-zero prior state (NaN, infinity, negative, heap coefficient, large exponent) and completed without error; distinct = distinct hash of the program.",
	"C05": "one evaluation = one simulated run of the one-task register machine with storage sharing: operand references are drawn with replacement so the destination may be the first operand, the second, both, and the operands may coincide; a destination that is not aliased is reset to a fresh zero value; each step is compared with a clean-room call on distinct fresh copies. Non-trivial = at least one step with an alias pattern other than all-distinct completed; distinct = distinct hash of the program. The BigInt job does the same against math/big with aliased registers.",
	"C16": "one evaluation = one simulated run of the BigInt register machine: a history of method calls over 4-6 BigInt registers mirrored by math/big.Int registers with the same alias pattern; after every step all registers are compared (text, Sign, BitLen, Cmp 0, IsInt64/IsUint64, Int64/Uint64, TrailingZeroBits, Bytes) and representation invariants are asserted. Non-trivial = the run made at least one representation transition (inline<->sentinel<->heap) or ran a fault step that fired; distinct = distinct hash of the program.",
	"C03": "one evaluation = one simulated run: (trap job) a list of fault / fault-free pairs — the same call executed with Traps=0 and with the planned trap set, step budget enforced; (latch job) a history of ErrDecimal calls checked against an explicit latch model after every step. Non-trivial = at least one injected trap actually produced an error (trap job) or the latch tripped with later calls following it (latch job); distinct = distinct hash of the program.",
}

func buildEvidence(cfg *config, results []*jobResult, extra map[string]interface{}, reported []reportedViolation, wall float64, nviol int) *evidence {
	ev := &evidence{PropertyID: cfg.prop, Tier: cfg.tier, Seed: cfg.seed, Level: "exploration", WallS: wall, Violations: nviol}
	cov := map[string]interface{}{}
	var evals uint64
	distinct := map[string]bool{}
	stats := map[string]uint64{}
	var samples []interface{}
	var jobsOut []map[string]interface{}
	for _, jr := range results {
		evals += jr.runs
		for s := range jr.nontriv {
			distinct[jr.job.WL+jr.job.Mode+s] = true
		}
		for k, v := range jr.stats {
			if k == "yield_sites" || k == "package_vars" || k == "site_pairs_this_process" || k == "go_statements_in_tree" {
				if v > stats[k] {
					stats[k] = v
				}
				continue
			}
			stats[k] += v
		}
		for _, s := range jr.samples {
			if len(samples) < 4 {
				var x interface{}
				if json.Unmarshal(s, &x) == nil {
					samples = append(samples, x)
				}
			}
		}
		perHour := 0.0
		if jr.wall > 0 {
			perHour = float64(jr.runs) / jr.wall * 3600
		}
		jobsOut = append(jobsOut, map[string]interface{}{
			"job": jr.job.Name, "build": jr.job.Variant.Label, "knobs": jr.job.Variant.Knobs, "race_detector": jr.job.Race, "workload": jr.job.WL, "mode": jr.job.Mode,
			"seed": jr.job.Seed, "runs_planned": jr.job.Runs, "runs_executed": jr.runs, "nontrivial_distinct": len(jr.nontriv), "wall_s": round1(jr.wall), "runs_per_hour": int64(perHour),
			"failing_runs": len(jr.failures),
		})
	}
	var pairUnion []byte
	for _, jr := range results {
		if len(pairUnion) < len(jr.pairBits) {
			pairUnion = append(pairUnion, make([]byte, len(jr.pairBits)-len(pairUnion))...)
		}
		for i := range jr.pairBits {
			pairUnion[i] |= jr.pairBits[i]
		}
	}
	if len(pairUnion) > 0 {
		n := 0
		for _, b := range pairUnion {
			for ; b != 0; b &= b - 1 {
				n++
			}
		}
		cov["distinct_interleaving_points"] = map[string]interface{}{"measure": "distinct (preempted yield site, yield site at which the resumed task had stopped) pairs, hashed into 65536 buckets, union over all workers", "value": n}
	}
	// code reach: which yield sites (statements of apd) did the runs execute?
	var hits []byte
	var names []string
	for _, jr := range results {
		if len(hits) < len(jr.siteHits) {
			hits = append(hits, make([]byte, len(jr.siteHits)-len(hits))...)
		}
		for i := range jr.siteHits {
			hits[i] |= jr.siteHits[i]
		}
		if len(jr.siteNames) > len(names) {
			names = jr.siteNames
		}
	}
	if len(hits) > 0 {
		n := 0
		perFunc := map[string][2]int{}
		for i, h := range hits {
			fn := "?"
			if i < len(names) {
				fn = names[i]
			}
			c := perFunc[fn]
			c[1]++
			if h != 0 {
				n++
				c[0]++
			}
			perFunc[fn] = c
		}
		var never []string
		for fn, c := range perFunc {
			if c[0] == 0 {
				never = append(never, fn)
			}
		}
		sort.Strings(never)
		cov["code_reach"] = map[string]interface{}{"measure": "yield sites (statements of the apd package) executed at least once by this check", "executed": n, "of": len(hits), "functions_never_entered": never}
	}
	cov["evaluations"] = evals
	cov["distinct_nontrivial"] = len(distinct)
	cov["rule"] = ruleText[cfg.prop]
	if len(samples) == 0 {
		samples = append(samples, "no sample captured")
	}
	cov["samples"] = samples
	cov["jobs"] = jobsOut
	cov["exhaustive"] = false
	// fault kinds that fired and probes
	faults := map[string]uint64{}
	probes := map[string]uint64{}
	groups := map[string]map[string]uint64{}
	groupNames := map[string]string{"depth": "trap_landing_depth_decile_by_op (n_T*10/n0; 10 = at or after the end)", "op": "operations_executed", "method": "bigint_methods_executed",
		"wrapper": "errdecimal_wrappers_executed", "pairs": "fault_fault_free_pairs_by_op", "overlap": "c18_runs_with_preemption_inside_op/shared_operand_count",
		"alias": "alias_patterns_exercised", "repr": "bigint_representation_transitions", "trapbit": "trap_fired_by_condition"}
	var keys []string
	for k := range stats {
		keys = append(keys, k)
	}
	sort.Strings(keys)
	var zero []string
	for _, k := range keys {
		if i := strings.IndexByte(k, '_'); i > 0 {
			if gn, ok := groupNames[k[:i]]; ok {
				if groups[gn] == nil {
					groups[gn] = map[string]uint64{}
				}
				groups[gn][k[i+1:]] = stats[k]
				continue
			}
		}
		switch {
		case strings.HasPrefix(k, "fault_"):
			faults[k[6:]] = stats[k]
			if stats[k] == 0 {
				zero = append(zero, k)
			}
		default:
			probes[k] = stats[k]
			if stats[k] == 0 {
				zero = append(zero, k)
			}
		}
	}
	for gn, g := range groups {
		cov[gn] = g
	}
	if zero == nil {
		zero = []string{}
	}
	cov["faults_fired"] = faults
	cov["counters"] = probes
	cov["probes_stuck_at_zero"] = zero
	cov["simulated_steps"] = stats["steps"]
	cov["simulated_time"] = "n/a — apd has no clock; yield points executed (simulated_steps) are the unit of simulated time"
	if wall > 0 {
		cov["runs_per_hour"] = int64(float64(evals) / wall * 3600)
		cov["seeds_per_hour"] = "one VERIF_SEED per invocation; every run derives its own sub-seed, so sub-seeds per hour = runs_per_hour"
	}
	cov["components"] = map[string]interface{}{
		"real":  []string{"cockroachdb/apd (all non-test files of /repo's working tree, instrumented copy)", "math/big", "fmt", "strconv", "Go runtime and race detector"},
		"stubs": stubsFor(cfg.prop),
	}
	for k, v := range extra {
		cov[k] = v
	}
	if len(reported) > 0 {
		cov["violations_reported"] = reported
	}
	ev.Coverage = cov
	ev.Assumptions = assumptionsFor(cfg.prop)
	return ev
}

func round1(f float64) float64 { return float64(int64(f*10)) / 10 }

func stubsFor(prop string) []string {
	switch prop {
	case "C16":
		return []string{"io.Reader under fmt.Fscan (short reads, errors, EOF at byte k)", "fmt.State for BigInt.Format (short / failing writer)", "rand.Source handed to BigInt.Rand (seeded)"}
	case "C18":
		return []string{"the Go scheduler's choice of which caller goroutine runs (replaced by the plan's schedule)"}
	}
	return []string{"none — one task, no environment doubles"}
}

func assumptionsFor(prop string) []string {
	common := []string{
		"sampling, not enumeration: a clean batch is evidence, not proof",
		"yield points are statement boundaries of apd code; a math/big call is atomic for the scheduler",
		"the instrumented copy (yield calls inserted textually before statements, build tag verif) behaves like the original; the repository's own suite gives identical verdicts on it",
	}
	switch prop {
	case "C18":
		return append(common, "Go race detector (ThreadSanitizer) as oracle; accesses made inside math/big assembly kernels are not instrumented", "solo execution in the same process is the specification of each call")
	case "C06", "C05":
		return append(common, "apd's own result on fresh, distinct operands and a fresh zero destination (clean-room call) is the specification; value correctness itself (C01 etc.) is not decided here")
	case "C16":
		return append(common, "math/big.Int is the reference; alias patterns on which math/big itself is not alias-consistent are excluded (counted as reference_undefined)")
	case "C03":
		return append(common, "the Traps=0 execution of the same call is the reference; spurious errors of composite functions caused by internal steps are allowed by the property and not flagged")
	}
	return common
}

// determinismSelfTest re-executes a sample of runs in separate processes under
// different process-level settings and requires byte-identical event logs and
// result digests.
func determinismSelfTest(cfg *config) (map[string]interface{}, []string) {
	st := map[string]interface{}{}
	var infra []string
	jobs := jobsFor(cfg)
	if len(jobs) == 0 {
		return st, nil
	}
	n := uint64(24)
	if cfg.tier == "thorough" {
		n = 64
	}
	type conf struct {
		name string
		race bool
		gmp  string
	}
	total := 0
	identical := true
	var perJob []map[string]interface{}
	seen := map[string]bool{}
	for _, j := range jobs {
		id := j.WL + "/" + j.Mode + "/" + j.Variant.Label
		if seen[id] || (cfg.tier != "thorough" && len(seen) >= 2) {
			continue
		}
		seen[id] = true
		confs := []conf{{"A", j.Race, "1"}, {"B", j.Race, "16"}, {"C", j.Race, "4"}}
		if j.Race {
			if _, err := os.Stat(j.Variant.Bin(false)); err == nil {
				confs = append(confs, conf{"plain-build", false, "1"})
			}
		}
		outs := map[string]string{}
		for _, c := range confs {
			for rep := 0; rep < 2; rep++ {
				var all []string
				// cold runs depend on fresh process state by design: one process per run
				step := n
				if j.PerProc > 0 {
					step = 1
				}
				failed := false
				for from := uint64(0); from < n && !failed; from += step {
					cmd := exec.Command(j.Variant.Bin(c.race), "worker", "-wl", j.WL, "-mode", j.Mode, "-seed", fmt.Sprint(j.Seed), "-from", fmt.Sprint(from), "-to", fmt.Sprint(from+step), "-tier", cfg.tier, "-evlog")
					cmd.Env = append(os.Environ(), "GOMAXPROCS="+c.gmp, `GORACE=halt_on_error=1 exitcode=66`)
					var out, errb bytes.Buffer
					cmd.Stdout = &out
					cmd.Stderr = &errb
					if err := cmd.Run(); err != nil {
						// a failing run is reported by the main exploration; here only note it
						st["note"] = "a sampled run failed during the self-test; see the main report"
						failed = true
						break
					}
					for _, l := range strings.Split(out.String(), "\n") {
						if strings.HasPrefix(l, "STATS ") || strings.HasPrefix(l, "PAIRS ") || l == "" {
							continue
						}
						all = append(all, l)
					}
					if j.PerProc > 0 && from >= 7 {
						break // 8 cold processes per configuration are enough
					}
				}
				if !failed {
					outs[fmt.Sprintf("%s#%d", c.name, rep)] = strings.Join(all, "\n")
				}
			}
		}
		var ref, refName string
		var names []string
		for k := range outs {
			names = append(names, k)
		}
		sort.Strings(names)
		same := true
		for _, k := range names {
			if ref == "" {
				ref, refName = outs[k], k
				continue
			}
			if outs[k] != ref {
				same = false
				identical = false
				// keep both logs for inspection
				os.MkdirAll(cfg.replays, 0o755)
				base := filepath.Join(cfg.replays, "determinism-diff-"+cfg.prop+"-"+sanitize(id))
				os.WriteFile(base+"-"+sanitize(refName)+".log", []byte(ref), 0o644)
				os.WriteFile(base+"-"+sanitize(k)+".log", []byte(outs[k]), 0o644)
				infra = append(infra, fmt.Sprintf("determinism self-test (%s): event log of configuration %s differs from %s (first difference: %s); both logs kept as %s-*.log", id, k, refName, firstDiff(ref, outs[k]), base))
			}
		}
		total += len(outs)
		perJob = append(perJob, map[string]interface{}{"workload": id, "seed": j.Seed, "executions": len(outs), "configurations": names, "event_log_bytes": len(ref), "byte_identical": same})
	}
	st["runs_sampled_per_workload"] = n
	st["executions"] = total
	st["workloads"] = perJob
	st["byte_identical"] = identical
	return st, infra
}

func firstDiff(a, b string) string {
	la, lb := strings.Split(a, "\n"), strings.Split(b, "\n")
	for i := 0; i < len(la) && i < len(lb); i++ {
		if la[i] != lb[i] {
			k := 0
			for k < len(la[i]) && k < len(lb[i]) && la[i][k] == lb[i][k] {
				k++
			}
			lo := k - 80
			if lo < 0 {
				lo = 0
			}
			return fmt.Sprintf("line %d col %d: ...%q vs ...%q", i, k, trim(la[i][lo:], 200), trim(lb[i][lo:], 200))
		}
	}
	return fmt.Sprintf("length %d vs %d lines", len(la), len(lb))
}
