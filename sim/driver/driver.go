// Package driver orchestrates simulated runs: it shards run indices over
// worker processes, collects results, classifies failures (including race
// detector kills), minimises failing plans, matches them against the
// known-findings file, writes the evidence file and decides the exit code.
// It links nothing from the code under test.
package driver

import (
	"bufio"
	"bytes"
	"encoding/hex"
	"encoding/json"
	"flag"
	"fmt"
	"os"
	"os/exec"
	"path/filepath"
	"sort"
	"strings"
	"sync"
	"time"

	"apdsim/plan"
)

// Variant is one build of the tree under test.
type Variant struct {
	Label string // e.g. "t128"
	Dir   string // scratch dir holding bin/apdsim and bin/apdsim-race
	Knobs string
}

func (v Variant) Bin(race bool) string {
	if race {
		return filepath.Join(v.Dir, "bin", "apdsim-race")
	}
	return filepath.Join(v.Dir, "bin", "apdsim")
}

// Job is a batch of runs of one workload on one build.
type Job struct {
	Name    string
	Variant Variant
	Race    bool
	WL      string
	Mode    string
	Runs    uint64
	Seed    uint64
	CapSec  int
	Workers int
	PerProc uint64 // >0: every worker process executes at most this many runs (fresh process state)
}

// maxFailuresPerJob stops a batch once it has this many failing runs.
const maxFailuresPerJob = 300

type failure struct {
	job        *Job
	run        uint64
	viol       plan.Violation
	plan       string // path of the plan file ("" if it must be materialised)
	race       string // race report text
	crash      string
	replayPath string // set when the failing history is already on disk (no plan to minimise)
	procFrom   uint64 // first run index and stride of the worker process that executed the run
	stride     uint64
}

type jobResult struct {
	job       *Job
	runs      uint64
	nontriv   map[string]bool // distinct signatures of non-trivial runs
	stats     map[string]uint64
	samples   []json.RawMessage
	failures  []failure
	infra     []string // infrastructure trouble (exit 2)
	wall      float64
	pairBits  []byte
	siteHits  []byte
	stalls    []uint64
	siteNames []string
	digests   map[uint64]string
	evlines   map[uint64][]string
}

type config struct {
	prop     string
	tier     string
	seed     uint64
	evidence string
	replays  string
	known    string
	tmp      string
	variants []Variant
	workers  int
	selftest bool
	scale    float64
	regress  string
}

func Main(args []string) int {
	fs := flag.NewFlagSet("driver", flag.ExitOnError)
	var cfg config
	var variants string
	fs.StringVar(&cfg.prop, "prop", "", "property id")
	fs.StringVar(&cfg.tier, "tier", "quick", "quick|thorough")
	fs.Uint64Var(&cfg.seed, "seed", 1, "VERIF_SEED")
	fs.StringVar(&cfg.evidence, "evidence", "", "evidence file to write")
	fs.StringVar(&cfg.replays, "replays", "", "directory for replay files")
	fs.StringVar(&cfg.known, "known", "", "known findings file")
	fs.StringVar(&cfg.tmp, "tmp", "", "scratch directory for plan files")
	fs.StringVar(&variants, "variants", "", "label=dir=knobs;...")
	fs.IntVar(&cfg.workers, "workers", 16, "worker processes")
	fs.Float64Var(&cfg.scale, "scale", 1, "multiplier for run counts")
	fs.StringVar(&cfg.regress, "regressions", "", "directory of replay files of repaired defects, re-executed by every check")
	replay := fs.String("replay", "", "replay a plan file instead of exploring")
	fs.Parse(args)
	for _, v := range strings.Split(variants, ";") {
		if v == "" {
			continue
		}
		p := strings.SplitN(v, "=", 3)
		vv := Variant{Label: p[0], Dir: p[1]}
		if len(p) > 2 {
			vv.Knobs = p[2]
		}
		cfg.variants = append(cfg.variants, vv)
	}
	if len(cfg.variants) == 0 {
		fmt.Fprintln(os.Stderr, "driver: no build variants")
		return 2
	}
	if *replay != "" {
		return replayMain(&cfg, *replay)
	}
	return explore(&cfg)
}

func (c *config) variant(label string) Variant {
	for _, v := range c.variants {
		if v.Label == label {
			return v
		}
	}
	return c.variants[0]
}

// runJob shards the runs of a job over worker processes.
func runJob(cfg *config, job *Job) *jobResult {
	jr := &jobResult{job: job, nontriv: map[string]bool{}, stats: map[string]uint64{}, digests: map[uint64]string{}, evlines: map[uint64][]string{}}
	start := time.Now()
	w := job.Workers
	if w <= 0 {
		w = cfg.workers
	}
	if uint64(w) > job.Runs {
		w = int(job.Runs)
	}
	if w < 1 {
		w = 1
	}
	deadline := time.Now().Add(time.Duration(job.CapSec) * time.Second)
	var mu sync.Mutex
	var wg sync.WaitGroup
	for i := 0; i < w; i++ {
		wg.Add(1)
		go func(i int) {
			defer wg.Done()
			from := uint64(i)
			for from < job.Runs {
				if time.Now().After(deadline) {
					return
				}
				to := job.Runs
				if job.PerProc > 0 && from+job.PerProc*uint64(w) < to {
					to = from + job.PerProc*uint64(w)
				}
				next, done := runWorker(cfg, job, from, to, uint64(w), deadline, jr, &mu, i == 0)
				if done {
					if to >= job.Runs {
						return
					}
					mu.Lock()
					stop := len(jr.failures) >= maxFailuresPerJob || len(jr.infra) > 0
					mu.Unlock()
					if stop {
						return
					}
					from = to
					continue
				}
				from = next
			}
		}(i)
	}
	wg.Wait()
	jr.wall = time.Since(start).Seconds()
	return jr
}

// runWorker starts one worker process for runs from, from+stride, ... It
// returns the run index to resume from if the process died during a run (after
// recording the failure), or done.
func runWorker(cfg *config, job *Job, from, to, stride uint64, deadline time.Time, jr *jobResult, mu *sync.Mutex, wantSamples bool) (uint64, bool) {
	args := []string{"worker", "-wl", job.WL, "-mode", job.Mode, "-seed", fmt.Sprint(job.Seed), "-from", fmt.Sprint(from), "-to", fmt.Sprint(to),
		"-stride", fmt.Sprint(stride), "-tier", cfg.tier, "-violdir", cfg.tmp, "-deadline", fmt.Sprint(deadline.Unix())}
	if wantSamples && from < stride {
		args = append(args, "-samples", "3")
	}
	if cfg.selftest {
		args = append(args, "-evlog")
	}
	cmd := exec.Command(job.Variant.Bin(job.Race), args...)
	cmd.Env = append(os.Environ(), `GORACE=halt_on_error=1 exitcode=66 history_size=4`, "GOMAXPROCS=1", "GOTRACEBACK=all")
	var stderr bytes.Buffer
	cmd.Stderr = &stderr
	stdout, err := cmd.StdoutPipe()
	if err != nil {
		mu.Lock()
		jr.infra = append(jr.infra, "pipe: "+err.Error())
		mu.Unlock()
		return 0, true
	}
	if err := cmd.Start(); err != nil {
		mu.Lock()
		jr.infra = append(jr.infra, "start: "+err.Error())
		mu.Unlock()
		return 0, true
	}
	// watchdog: a run that makes no progress for a long time is infrastructure
	// trouble (exit 2), never a violation.
	var lastMu sync.Mutex
	last := time.Now()
	stop := make(chan struct{})
	killed := false
	memKilled := 0
	go func() {
		t := time.NewTicker(time.Second)
		defer t.Stop()
		for {
			select {
			case <-stop:
				return
			case <-t.C:
				lastMu.Lock()
				idle := time.Since(last)
				lastMu.Unlock()
				if idle > 600*time.Second {
					killed = true
					cmd.Process.Kill()
					return
				}
				if rss := rssMB(cmd.Process.Pid); rss > 3072 {
					killed = true
					memKilled = rss
					cmd.Process.Kill()
					return
				}
			}
		}
	}()
	sc := bufio.NewScanner(stdout)
	sc.Buffer(make([]byte, 1<<20), 1<<26)
	inflight := int64(-1)
	restartAfter := int64(-1)
	stoppedEarly := false
	plans := map[uint64]string{}
	for sc.Scan() {
		line := sc.Text()
		lastMu.Lock()
		last = time.Now()
		lastMu.Unlock()
		switch {
		case strings.HasPrefix(line, "BEGIN "):
			fmt.Sscanf(line[6:], "%d", &inflight)
		case strings.HasPrefix(line, "PLAN "):
			var r uint64
			var p string
			fmt.Sscanf(line[5:], "%d %s", &r, &p)
			plans[r] = p
		case strings.HasPrefix(line, "SAMPLE "):
			mu.Lock()
			if len(jr.samples) < 3 {
				jr.samples = append(jr.samples, json.RawMessage(line[7:]))
			}
			mu.Unlock()
		case strings.HasPrefix(line, "EV "):
			var r uint64
			fmt.Sscanf(line[3:], "%d", &r)
			mu.Lock()
			jr.evlines[r] = append(jr.evlines[r], line)
			mu.Unlock()
		case strings.HasPrefix(line, "END "):
			sp := strings.IndexByte(line[4:], ' ')
			var res plan.Result
			if sp < 0 || json.Unmarshal([]byte(line[4+sp+1:]), &res) != nil {
				mu.Lock()
				jr.infra = append(jr.infra, "unparsable END line: "+line)
				mu.Unlock()
				continue
			}
			inflight = -1
			mu.Lock()
			jr.runs++
			jr.digests[res.Run] = res.Digest
			if res.Nontrivial {
				jr.nontriv[res.Sig] = true
			}
			for k, v := range res.Stats {
				jr.stats[k] += v
			}
			for _, v := range res.Violations {
				jr.failures = append(jr.failures, failure{job: job, run: res.Run, viol: v, plan: plans[res.Run], procFrom: from, stride: stride})
			}
			enough := len(jr.failures) >= maxFailuresPerJob
			mu.Unlock()
			if enough {
				// plenty of failing runs to classify and minimise; stop exploring
				stoppedEarly = true
				cmd.Process.Kill()
			}
		case strings.HasPrefix(line, "RESTART "):
			fmt.Sscanf(line[8:], "%d", &restartAfter)
		case strings.HasPrefix(line, "SITES "):
			if b, err := hex.DecodeString(line[6:]); err == nil {
				mu.Lock()
				if len(jr.siteHits) < len(b) {
					jr.siteHits = append(jr.siteHits, make([]byte, len(b)-len(jr.siteHits))...)
				}
				for i := range b {
					jr.siteHits[i] |= b[i]
				}
				mu.Unlock()
			}
		case strings.HasPrefix(line, "SITENAMES "):
			var names []string
			if json.Unmarshal([]byte(line[10:]), &names) == nil {
				mu.Lock()
				jr.siteNames = names
				mu.Unlock()
			}
		case strings.HasPrefix(line, "PAIRS "):
			if b, err := hex.DecodeString(line[6:]); err == nil {
				mu.Lock()
				if len(jr.pairBits) < len(b) {
					jr.pairBits = append(jr.pairBits, make([]byte, len(b)-len(jr.pairBits))...)
				}
				for i := range b {
					jr.pairBits[i] |= b[i]
				}
				mu.Unlock()
			}
		case strings.HasPrefix(line, "STATS "):
			var st map[string]uint64
			if json.Unmarshal([]byte(line[6:]), &st) == nil {
				mu.Lock()
				for _, k := range []string{"yield_sites", "package_vars", "site_pairs_this_process", "go_statements_in_tree"} {
					if st[k] > jr.stats[k] {
						jr.stats[k] = st[k]
					}
				}
				mu.Unlock()
			}
		}
	}
	err = cmd.Wait()
	close(stop)
	if err == nil || stoppedEarly {
		return 0, true
	}
	mu.Lock()
	tooMany := len(jr.failures) >= maxFailuresPerJob
	mu.Unlock()
	code := -1
	if ee, ok := err.(*exec.ExitError); ok {
		code = ee.ExitCode()
	}
	mu.Lock()
	defer mu.Unlock()
	text := stderr.String()
	switch {
	case killed && memKilled > 0:
		jr.infra = append(jr.infra, fmt.Sprintf("watchdog: worker grew to %d MB resident in run %d of job %s (seed %d) and was stopped", memKilled, inflight, job.Name, job.Seed))
		return 0, true
	case killed:
		jr.infra = append(jr.infra, fmt.Sprintf("watchdog: worker made no progress for 600 s in run %d of job %s (seed %d)", inflight, job.Name, job.Seed))
		return 0, true
	case code == 6 && inflight >= 0 && cfg.prop != "C06" && cfg.prop != "C03":
		// a call executed alone (solo phase / one-task run) blocks for ever: a
		// liveness failure that depends on what the process executed before. That
		// is for C06 (history) and C03 (returns after a fault) to report; the other
		// checks note the run as not simulated.
		jr.stalls = append(jr.stalls, uint64(inflight))
		jr.runs++
		return uint64(inflight) + stride, false
	case (code == 5 || code == 6) && inflight >= 0:
		// every live task is parked in a channel / Cond / WaitGroup operation and
		// nobody is left to wake them: calls that return when run alone do not
		// return under this schedule
		jr.failures = append(jr.failures, failure{job: job, run: uint64(inflight), procFrom: from, stride: stride,
			viol: plan.Violation{Property: cfg.prop, Class: cfg.prop + "/unbounded-wait", Key: "parked",
				Detail: "every live task is parked in a channel / sync.Cond / sync.WaitGroup operation and no task is left that could wake them (the calls complete when run alone)"}})
		jr.runs++
		return uint64(inflight) + stride, false
	case code == 4 && inflight >= 0:
		// the run blocked inside a primitive the simulator does not own
		jr.stalls = append(jr.stalls, uint64(inflight))
		jr.runs++
		return uint64(inflight) + stride, false
	case code == 3 && restartAfter >= 0:
		// the worker found package-level state corrupted and exited so that
		// later runs start from pristine state
		return uint64(restartAfter) + stride, false
	case code == 66 && inflight >= 0:
		v, ok := classifyRace(text, cfg.prop)
		if !ok {
			jr.infra = append(jr.infra, fmt.Sprintf("race report without a frame of the code under test (harness bug) in run %d:\n%s", inflight, trim(text, 3000)))
			return 0, true
		}
		jr.failures = append(jr.failures, failure{job: job, run: uint64(inflight), viol: v, race: text, procFrom: from, stride: stride})
		jr.runs++
		if tooMany {
			return 0, true
		}
		return uint64(inflight) + stride, false
	case inflight >= 0 && (strings.Contains(text, "fatal error: concurrent map") || strings.Contains(text, "fatal error: sync:")):
		jr.failures = append(jr.failures, failure{job: job, run: uint64(inflight), crash: text, procFrom: from, stride: stride,
			viol: plan.Violation{Property: cfg.prop, Class: cfg.prop + "/fatal", Key: firstLine(text), Detail: trim(text, 2000)}})
		jr.runs++
		return uint64(inflight) + stride, false
	default:
		jr.infra = append(jr.infra, fmt.Sprintf("worker exit %d in run %d of job %s:\n%s", code, inflight, job.Name, trim(text, 3000)))
		return 0, true
	}
}

func trim(s string, n int) string {
	if len(s) > n {
		return s[:n] + "\n...[truncated]"
	}
	return s
}

func firstLine(s string) string {
	if i := strings.IndexByte(s, '\n'); i >= 0 {
		return s[:i]
	}
	return s
}

// classifyRace extracts a stable class from a race report: the innermost
// function of the code under test (or math/big reached from it) in the first
// access stack. A report with no apd frame in either access stack is a
// harness problem.
func classifyRace(text, prop string) (plan.Violation, bool) {
	i := strings.Index(text, "WARNING: DATA RACE")
	if i < 0 {
		return plan.Violation{}, false
	}
	body := text[i:]
	if j := strings.Index(body, "Goroutine "); j > 0 {
		body = body[:j]
	}
	const pkg = "github.com/cockroachdb/apd/v3."
	var funcs []string
	// the innermost frame of each of the two conflicting accesses: if both are
	// harness code the conflict is between harness variables (a harness bug,
	// exit 2), even when frames of the code under test sit further up the stacks
	// (e.g. a panic unwinding through them)
	var tops []string
	expectTop := false
	for _, l := range strings.Split(body, "\n") {
		t := strings.TrimSpace(l)
		if strings.HasPrefix(t, "Read at ") || strings.HasPrefix(t, "Write at ") || strings.HasPrefix(t, "Previous read at ") || strings.HasPrefix(t, "Previous write at ") ||
			strings.HasPrefix(t, "Atomic ") || strings.HasPrefix(t, "Previous atomic ") {
			expectTop = true
			continue
		}
		if expectTop && t != "" && !strings.HasPrefix(t, "/") {
			tops = append(tops, t)
			expectTop = false
		}
		if strings.HasPrefix(t, pkg) {
			f := strings.TrimPrefix(t, pkg)
			if k := strings.Index(f, "()"); k >= 0 {
				f = f[:k]
			}
			funcs = append(funcs, f)
		}
	}
	harnessOnly := len(tops) >= 2
	for _, t := range tops {
		if !strings.HasPrefix(t, "apdsim/") {
			harnessOnly = false
		}
	}
	if len(funcs) == 0 || harnessOnly {
		return plan.Violation{}, false
	}
	// key: the innermost frame of the code under test that is not a BigInt
	// method (BigInt methods only carry out the access; the function that
	// chose the shared object is the one above them)
	key := funcs[0]
	for _, f := range funcs {
		if !strings.HasPrefix(f, "(*BigInt).") && !strings.HasPrefix(f, "BigInt.") {
			key = f
			break
		}
	}
	detail := trim(text[i:], 6000)
	return plan.Violation{Property: prop, Class: prop + "/race", Key: key, Detail: "race in " + key + " (innermost frame " + funcs[0] + ")\n" + detail}, true
}

// ---------------------------------------------------------------------------

type knownFinding struct {
	open     bool
	property string
	class    string
	key      string
	text     string
}

func loadKnown(path string) []knownFinding {
	var out []knownFinding
	b, err := os.ReadFile(path)
	if err != nil {
		return nil
	}
	for _, l := range strings.Split(string(b), "\n") {
		l = strings.TrimSpace(l)
		if l == "" || strings.HasPrefix(l, "#") {
			continue
		}
		var k knownFinding
		switch {
		case strings.HasPrefix(l, "open:"):
			k.open = true
			l = strings.TrimSpace(l[5:])
		case strings.HasPrefix(l, "fixed:"):
			l = strings.TrimSpace(l[6:])
		default:
			continue
		}
		k.text = l
		for _, f := range strings.Fields(l) {
			switch {
			case strings.HasPrefix(f, "property="):
				k.property = f[9:]
			case strings.HasPrefix(f, "class="):
				k.class = f[6:]
			case strings.HasPrefix(f, "key="):
				k.key = f[4:]
			}
		}
		out = append(out, k)
	}
	return out
}

func matchKnown(ks []knownFinding, v plan.Violation) *knownFinding {
	for i := range ks {
		k := &ks[i]
		if !k.open || k.property != v.Property {
			continue
		}
		if k.class != "" && k.class != v.Class {
			continue
		}
		if k.key != "" && k.key != v.Key {
			continue
		}
		return k
	}
	return nil
}

// ---------------------------------------------------------------------------

type evidence struct {
	PropertyID  string                 `json:"property_id"`
	Tier        string                 `json:"tier"`
	Seed        uint64                 `json:"seed"`
	Level       string                 `json:"level"`
	Coverage    map[string]interface{} `json:"coverage"`
	Assumptions []string               `json:"assumptions"`
	WallS       float64                `json:"wall_s"`
	Violations  int                    `json:"violations"`
}

func explore(cfg *config) int {
	start := time.Now()
	jobs := jobsFor(cfg)
	if len(jobs) == 0 {
		fmt.Fprintln(os.Stderr, "driver: no jobs for property", cfg.prop)
		return 2
	}
	fmt.Printf("apdsim: property=%s tier=%s VERIF_SEED=%d jobs=%d\n", cfg.prop, cfg.tier, cfg.seed, len(jobs))
	var results []*jobResult
	var infra []string
	stalled := 0
	for _, j := range jobs {
		jr := runJob(cfg, j)
		results = append(results, jr)
		infra = append(infra, jr.infra...)
		fmt.Printf("  job %-28s build=%s race=%v runs=%d nontrivial-distinct=%d failures=%d wall=%.1fs\n", j.Name, j.Variant.Label, j.Race, jr.runs, len(jr.nontriv), len(jr.failures), jr.wall)
		if len(jr.stalls) > 0 {
			fmt.Printf("WARNING: %d run(s) of job %s could not be simulated: a task blocked inside a primitive the simulator does not own (channel, sync.Cond, sync.WaitGroup ...) while holding the processor (first: run %d)\n", len(jr.stalls), j.Name, jr.stalls[0])
			stalled += len(jr.stalls)
		}
	}
	// extra phases (cross-process history oracle, determinism self-test)
	extra := map[string]interface{}{}
	extra["runs_not_simulated_blocking_primitive"] = stalled
	var extraFailures []failure
	if cfg.prop == "C06" {
		f, inf, st := historyOracle(cfg)
		extraFailures = append(extraFailures, f...)
		infra = append(infra, inf...)
		extra["cross_process_history_oracle"] = st
		if why, ok := st["history_oracle_inconclusive"]; ok {
			fmt.Printf("WARNING: cross-process history oracle gave no verdict on this tree (a logged run was %v)\n", why)
		}
	}
	{
		// On the unchanged tree the simulator is deterministic (proved on a large
		// sample, tools/determinism.sh). A difference here therefore means that
		// the tree under test has a source of nondeterminism the simulator does
		// not own (map iteration order, sync.Map, goroutines of its own ...):
		// verdicts stand, but replays may not reproduce on every execution. It is
		// reported, and does not change the exit code.
		st, inf := determinismSelfTest(cfg)
		for _, m := range inf {
			fmt.Println("WARNING:", m)
		}
		if len(inf) > 0 {
			fmt.Println("WARNING: the tree under test is not deterministic under the simulator; replay files of this run may need several executions to reproduce")
		}
		extra["determinism_selftest"] = st
	}

	// regression replays of repaired defects
	rf, rinf, rst := runRegressions(cfg)
	extraFailures = append(extraFailures, rf...)
	infra = append(infra, rinf...)
	extra["regression_replays"] = rst

	// failures → classes → minimise → report
	var all []failure
	for _, jr := range results {
		all = append(all, jr.failures...)
	}
	all = append(all, extraFailures...)
	known := loadKnown(cfg.known)
	exit := 0
	nviol := 0
	reported := reportFailures(cfg, all, known, &exit, &nviol, &infra)

	// evidence
	ev := buildEvidence(cfg, results, extra, reported, time.Since(start).Seconds(), nviol)
	if cfg.evidence != "" {
		b, _ := json.MarshalIndent(ev, "", " ")
		os.MkdirAll(filepath.Dir(cfg.evidence), 0o755)
		if err := os.WriteFile(cfg.evidence, append(b, '\n'), 0o644); err != nil {
			infra = append(infra, "evidence: "+err.Error())
		}
	}
	if len(infra) > 0 && exit == 0 {
		for _, m := range infra {
			fmt.Println("INFRASTRUCTURE:", m)
		}
		return 2
	}
	for _, m := range infra {
		fmt.Println("INFRASTRUCTURE:", m)
	}
	var total uint64
	for _, jr := range results {
		total += jr.runs
	}
	if exit == 0 {
		fmt.Printf("apdsim: property %s held on %d simulated runs (%.1fs)\n", cfg.prop, total, time.Since(start).Seconds())
	}
	return exit
}

type reportedViolation struct {
	Class  string `json:"class"`
	Key    string `json:"key"`
	Replay string `json:"replay"`
	Known  bool   `json:"known"`
	Count  int    `json:"failing_runs"`
}

func reportFailures(cfg *config, all []failure, known []knownFinding, exit *int, nviol *int, infra *[]string) []reportedViolation {
	if len(all) == 0 {
		return nil
	}
	// group by (class,key)
	type group struct {
		id    string
		fails []failure
	}
	groups := map[string]*group{}
	var order []string
	sibling := map[string]int{}
	for _, f := range all {
		if f.viol.Property != "" && f.viol.Property != cfg.prop {
			// a genuine finding, but of a sibling property that has its own
			// check; this check decides cfg.prop only
			sibling[f.viol.Property+" "+f.viol.Class]++
			continue
		}
		id := f.viol.Class + "|" + f.viol.Key
		g := groups[id]
		if g == nil {
			g = &group{id: id}
			groups[id] = g
			order = append(order, id)
		}
		g.fails = append(g.fails, f)
	}
	sort.Strings(order)
	var sk []string
	for k := range sibling {
		sk = append(sk, k)
	}
	sort.Strings(sk)
	for _, k := range sk {
		fmt.Printf("NOTE: %d run(s) hit a finding that belongs to another property (decided by that property's own check): %s\n", sibling[k], k)
	}
	var out []reportedViolation
	total := 150 * time.Second
	per := 50 * time.Second
	if cfg.tier == "thorough" {
		total, per = 10*time.Minute, 120*time.Second
	}
	budgetEnd := time.Now().Add(total)
	for gi, id := range order {
		g := groups[id]
		f := g.fails[0]
		if gi >= 40 {
			fmt.Printf("  (further failing class %s: %d runs)\n", id, len(g.fails))
			continue
		}
		if f.replayPath != "" {
			v := f.viol
			k := matchKnown(known, v)
			out = append(out, reportedViolation{Class: v.Class, Key: v.Key, Replay: f.replayPath, Known: k != nil, Count: len(g.fails)})
			if k != nil {
				fmt.Printf("KNOWN-FINDING: %s\n", k.text)
				continue
			}
			*nviol++
			*exit = 1
			fmt.Printf("VIOLATION property=%s replay=%s\n", cfg.prop, f.replayPath)
			fmt.Printf("  class=%s key=%s\n", v.Class, v.Key)
			for _, l := range strings.Split(trim(v.Detail, 2500), "\n") {
				fmt.Println("  | " + l)
			}
			continue
		}
		p, err := obtainPlan(cfg, &f)
		if err != nil {
			*infra = append(*infra, fmt.Sprintf("cannot obtain plan for failing run %d (%s): %v", f.run, id, err))
			continue
		}
		p.Class = f.viol.Class
		p.Detail = f.viol.Detail
		var minimised *plan.Plan
		v := f.viol
		if left := time.Until(budgetEnd); left > 5*time.Second {
			if left > per {
				left = per
			}
			minimised, v = minimise(cfg, f.job, p, f.viol, left, preludeOf(cfg, &f))
		} else {
			// out of minimisation budget: the unminimised plan, with everything
			// its worker process executed before it, is still an exact replay
			minimised = p
			minimised.Prelude = preludeOf(cfg, &f)
		}
		minimised.Class = v.Class
		minimised.Detail = v.Detail
		os.MkdirAll(cfg.replays, 0o755)
		name := fmt.Sprintf("%s-%d-%d-%s.json", cfg.prop, f.job.Seed, f.run, sanitize(v.Class+"-"+v.Key))
		path := filepath.Join(cfg.replays, name)
		minimised.Knobs = map[string]string{"build": f.job.Variant.Label, "knobs": f.job.Variant.Knobs}
		minimised.Race = f.job.Race
		if err := minimised.Save(path); err != nil {
			*infra = append(*infra, "save replay: "+err.Error())
			continue
		}
		k := matchKnown(known, v)
		rv := reportedViolation{Class: v.Class, Key: v.Key, Replay: path, Known: k != nil, Count: len(g.fails)}
		out = append(out, rv)
		if k != nil {
			fmt.Printf("KNOWN-FINDING: %s\n", k.text)
			continue
		}
		*nviol++
		*exit = 1
		fmt.Printf("VIOLATION property=%s replay=%s\n", cfg.prop, path)
		fmt.Printf("  class=%s key=%s failing-runs=%d first: seed=%d run=%d build=%s\n", v.Class, v.Key, len(g.fails), f.job.Seed, f.run, f.job.Variant.Label)
		for _, l := range strings.Split(trim(v.Detail, 2500), "\n") {
			fmt.Println("  | " + l)
		}
	}
	return out
}

func sanitize(s string) string {
	var b strings.Builder
	for _, c := range s {
		switch {
		case c >= 'a' && c <= 'z', c >= 'A' && c <= 'Z', c >= '0' && c <= '9', c == '-', c == '_':
			b.WriteRune(c)
		default:
			b.WriteByte('_')
		}
	}
	r := b.String()
	if len(r) > 80 {
		r = r[:80]
	}
	return r
}

// obtainPlan loads the plan saved by the worker, or materialises it by
// re-deriving it from (seed, run) in a fresh process of the non-race build.
func obtainPlan(cfg *config, f *failure) (*plan.Plan, error) {
	if f.plan != "" {
		return plan.Load(f.plan)
	}
	out := filepath.Join(cfg.tmp, fmt.Sprintf("mat-%s-%d-%d.json", f.job.WL, f.job.Seed, f.run))
	bin := f.job.Variant.Bin(false)
	if _, err := os.Stat(bin); err != nil {
		bin = f.job.Variant.Bin(true)
	}
	cmd := exec.Command(bin, "plan", "-wl", f.job.WL, "-mode", f.job.Mode, "-seed", fmt.Sprint(f.job.Seed), "-run", fmt.Sprint(f.run), "-tier", cfg.tier, "-out", out)
	cmd.Env = append(os.Environ(), "GOMAXPROCS=1")
	if b, err := cmd.CombinedOutput(); err != nil {
		return nil, fmt.Errorf("%v: %s", err, trim(string(b), 500))
	}
	return plan.Load(out)
}

// execPlan runs one plan in a fresh process and returns its violations.
func execPlan(cfg *config, v Variant, race bool, p *plan.Plan, tag string) (viols []plan.Violation, res *plan.Result, infra string) {
	path := filepath.Join(cfg.tmp, "cand-"+tag+".json")
	if err := p.Save(path); err != nil {
		return nil, nil, err.Error()
	}
	cmd := exec.Command(v.Bin(race), "exec", "-plan", path)
	cmd.Env = append(os.Environ(), `GORACE=halt_on_error=1 exitcode=66 history_size=4`, "GOMAXPROCS=1")
	var stdout, stderr bytes.Buffer
	cmd.Stdout = &stdout
	cmd.Stderr = &stderr
	done := make(chan error, 1)
	if err := cmd.Start(); err != nil {
		return nil, nil, err.Error()
	}
	go func() { done <- cmd.Wait() }()
	var err error
	select {
	case err = <-done:
	case <-time.After(240 * time.Second):
		cmd.Process.Kill()
		<-done
		return nil, nil, "exec watchdog: no result within 240 s"
	}
	for _, line := range strings.Split(stdout.String(), "\n") {
		if strings.HasPrefix(line, "END ") {
			sp := strings.IndexByte(line[4:], ' ')
			var r plan.Result
			if sp >= 0 && json.Unmarshal([]byte(line[4+sp+1:]), &r) == nil {
				res = &r
				viols = append(viols, r.Violations...)
			}
		}
	}
	if err != nil {
		code := -1
		if ee, ok := err.(*exec.ExitError); ok {
			code = ee.ExitCode()
		}
		text := stderr.String()
		if code == 5 || code == 6 {
			viols = append(viols, plan.Violation{Property: p.Property, Class: p.Property + "/unbounded-wait", Key: "parked",
				Detail: "every live task is parked in a channel / sync.Cond / sync.WaitGroup operation and no task is left that could wake them"})
			return viols, res, ""
		}
		if code == 66 {
			if rv, ok := classifyRace(text, p.Property); ok {
				viols = append(viols, rv)
				return viols, res, ""
			}
			return nil, res, "race report without apd frame:\n" + trim(text, 2000)
		}
		if strings.Contains(text, "fatal error: concurrent map") || strings.Contains(text, "fatal error: sync:") {
			viols = append(viols, plan.Violation{Property: p.Property, Class: p.Property + "/fatal", Key: firstLine(text), Detail: trim(text, 2000)})
			return viols, res, ""
		}
		return nil, res, fmt.Sprintf("exec exit %d: %s", code, trim(text, 2000))
	}
	return viols, res, ""
}

func hasClass(vs []plan.Violation, class, key string) (plan.Violation, bool) {
	for _, v := range vs {
		if v.Class == class && (key == "" || v.Key == key) {
			return v, true
		}
	}
	return plan.Violation{}, false
}

func replayMain(cfg *config, path string) int {
	if strings.HasSuffix(path, ".jsonl") {
		return replayHistory(cfg, path)
	}
	p, err := plan.Load(path)
	if err != nil {
		fmt.Fprintln(os.Stderr, "replay:", err)
		return 2
	}
	cfg.prop = p.Property
	v := cfg.variants[0]
	if p.Knobs != nil {
		v = cfg.variant(p.Knobs["build"])
	}
	fmt.Printf("apdsim: replaying %s (property %s, build %s, race=%v)\n", path, p.Property, v.Label, p.Race)
	viols, _, infra := execPlan(cfg, v, p.Race, p, "replay")
	if infra != "" {
		fmt.Println("INFRASTRUCTURE:", infra)
		return 2
	}
	if len(viols) == 0 {
		fmt.Println("apdsim: replay did not reproduce a violation on this tree")
		return 0
	}
	known := loadKnown(cfg.known)
	exit := 0
	for _, vv := range viols {
		if k := matchKnown(known, vv); k != nil {
			fmt.Printf("KNOWN-FINDING: %s\n", k.text)
			continue
		}
		exit = 1
		fmt.Printf("VIOLATION property=%s replay=%s\n", p.Property, path)
		fmt.Printf("  class=%s key=%s\n", vv.Class, vv.Key)
		for _, l := range strings.Split(trim(vv.Detail, 2500), "\n") {
			fmt.Println("  | " + l)
		}
	}
	return exit
}

// runRegressions re-executes the minimised replay files of defects that were
// repaired (see known_findings.txt, "fixed:" lines): a fixed entry suppresses
// nothing, so if the defect ever returns it is reported like any violation.
func runRegressions(cfg *config) ([]failure, []string, map[string]interface{}) {
	st := map[string]interface{}{}
	if cfg.regress == "" {
		return nil, nil, st
	}
	files, _ := filepath.Glob(filepath.Join(cfg.regress, cfg.prop+"-*.json"))
	sort.Strings(files)
	var fails []failure
	var infra []string
	n := 0
	for _, f := range files {
		p, err := plan.Load(f)
		if err != nil {
			infra = append(infra, "regression file "+f+": "+err.Error())
			continue
		}
		v := cfg.variants[0]
		viols, _, inf := execPlan(cfg, v, p.Race, p, "regr")
		if inf != "" {
			infra = append(infra, "regression "+f+": "+inf)
			continue
		}
		n++
		job := &Job{Name: "regression", Variant: v, Race: p.Race, WL: p.Workload, Mode: p.Mode, Seed: p.Seed}
		for _, vv := range viols {
			if vv.Property != cfg.prop {
				continue
			}
			vv.Detail = "regression: a repaired defect is back (" + filepath.Base(f) + ")\n" + vv.Detail
			fails = append(fails, failure{job: job, run: p.Run, viol: vv, replayPath: f})
		}
	}
	st["files"] = n
	st["failing"] = len(fails)
	return fails, infra, st
}

// rssMB reads the resident set size of a process from /proc.
func rssMB(pid int) int {
	b, err := os.ReadFile(fmt.Sprintf("/proc/%d/statm", pid))
	if err != nil {
		return 0
	}
	var size, rss int
	fmt.Sscanf(string(b), "%d %d", &size, &rss)
	return rss * os.Getpagesize() / (1 << 20)
}

// replayHistory re-evaluates a kept history log (cross-process oracle of C06)
// in fresh processes.
func replayHistory(cfg *config, path string) int {
	cfg.prop = "C06"
	v := cfg.variants[0]
	fmt.Printf("apdsim: re-evaluating history log %s in fresh processes (build %s)\n", path, v.Label)
	known := loadKnown(cfg.known)
	exit := 0
	for i := 0; i < 3; i++ {
		cmd := exec.Command(v.Bin(false), "rehist", "-in", path, "-seed", fmt.Sprint(1000+i))
		cmd.Env = append(os.Environ(), "GOMAXPROCS=1")
		var out, errb bytes.Buffer
		cmd.Stdout = &out
		cmd.Stderr = &errb
		if err := cmd.Run(); err != nil {
			fmt.Println("INFRASTRUCTURE:", err, trim(errb.String(), 1000))
			return 2
		}
		for _, line := range strings.Split(out.String(), "\n") {
			if !strings.HasPrefix(line, "END ") {
				continue
			}
			var r plan.Result
			if json.Unmarshal([]byte(line[6:]), &r) != nil {
				continue
			}
			for _, vv := range r.Violations {
				if k := matchKnown(known, vv); k != nil {
					fmt.Printf("KNOWN-FINDING: %s\n", k.text)
					continue
				}
				exit = 1
				fmt.Printf("VIOLATION property=C06 replay=%s\n  class=%s key=%s\n", path, vv.Class, vv.Key)
				for _, l := range strings.Split(trim(vv.Detail, 2000), "\n") {
					fmt.Println("  | " + l)
				}
			}
		}
		if exit != 0 {
			break
		}
	}
	if exit == 0 {
		fmt.Println("apdsim: history log gives the same outcomes in fresh processes")
	}
	return exit
}

// preludeOf lists the runs the worker process executed before the failing one.
func preludeOf(cfg *config, f *failure) []plan.Ref {
	var out []plan.Ref
	if f.stride == 0 {
		return nil
	}
	for r := f.procFrom; r < f.run; r += f.stride {
		out = append(out, plan.Ref{Workload: f.job.WL, Mode: f.job.Mode, Seed: f.job.Seed, Run: r, Tier: cfg.tier})
	}
	return out
}
