package driver

import (
	"bytes"
	"encoding/json"
	"fmt"
	"os"
	"os/exec"
	"path/filepath"
	"strings"
	"time"

	"apdsim/plan"
)

// historyOracle is the cross-process half of C06 ("independent of every
// operation executed earlier in the process"): one worker executes a batch of
// register-machine runs and logs every clean-room evaluation (inputs and
// outcome); fresh processes then re-evaluate the log in shuffled orders. A
// record that gives another outcome there depends on hidden process state.
func historyOracle(cfg *config) ([]failure, []string, map[string]interface{}) {
	st := map[string]interface{}{}
	var infra []string
	var fails []failure
	v := cfg.variants[0]
	runs := 96
	shuffles := 3
	if cfg.tier == "thorough" {
		runs = 400
		shuffles = 4
	}
	log := filepath.Join(cfg.tmp, "history.jsonl")
	os.Remove(log)
	seed := plan.Derive(cfg.seed, 606, 1)
	// the logging worker leaves (exit code 3, RESTART <run>) after a run in which
	// a call had to be abandoned; logging then continues in a fresh process
	for from := 0; from < runs; {
		cmd := exec.Command(v.Bin(false), "worker", "-wl", "reg", "-mode", "c06", "-seed", fmt.Sprint(seed), "-from", fmt.Sprint(from), "-to", fmt.Sprint(runs), "-tier", cfg.tier, "-histlog", log)
		cmd.Env = append(os.Environ(), "GOMAXPROCS=1")
		var ob bytes.Buffer
		cmd.Stdout, cmd.Stderr = &ob, &ob
		err, stopped := runBounded(cmd, histBudget(cfg))
		b := ob.Bytes()
		if stopped != "" {
			// the tree under test made a logged run astronomically expensive (or
			// huge); that is for the main exploration to judge — this oracle gives
			// no verdict on such a tree
			st["history_oracle_inconclusive"] = stopped
			return nil, nil, st
		}
		if err == nil {
			break
		}
		next := -1
		if ee, ok := err.(*exec.ExitError); ok && (ee.ExitCode() >= 3 && ee.ExitCode() <= 6) {
			// 3: restart after an abandoned call; 4/5/6: the run blocked in a
			// primitive (reported by the main exploration); logging goes on after it
			for _, line := range strings.Split(string(b), "\n") {
				for _, pre := range []string{"RESTART ", "STALL ", "UNBOUNDED-WAIT "} {
					if strings.HasPrefix(line, pre) {
						fmt.Sscanf(line[len(pre):], "%d", &next)
					}
				}
			}
		}
		if next < from {
			return nil, []string{fmt.Sprintf("history oracle: logging worker failed: %v: %s", err, trim(string(b), 1000))}, st
		}
		from = next + 1
	}
	total := 0
	job := &Job{Name: "c06-cross-process-history", Variant: v, WL: "reg", Mode: "c06", Seed: seed}
	for i := 0; i < shuffles; i++ {
		cmd := exec.Command(v.Bin(false), "rehist", "-in", log, "-seed", fmt.Sprint(plan.Derive(seed, uint64(i), 2)))
		cmd.Env = append(os.Environ(), "GOMAXPROCS=1")
		var out, errb bytes.Buffer
		cmd.Stdout = &out
		cmd.Stderr = &errb
		err, stopped := runBounded(cmd, histBudget(cfg))
		if stopped != "" {
			st["history_oracle_inconclusive"] = stopped
			continue
		}
		if err != nil {
			infra = append(infra, fmt.Sprintf("history oracle: re-evaluation failed: %v: %s", err, trim(errb.String(), 1000)))
			continue
		}
		for _, line := range strings.Split(out.String(), "\n") {
			if !strings.HasPrefix(line, "END ") {
				continue
			}
			var r plan.Result
			if json.Unmarshal([]byte(line[6:]), &r) != nil {
				infra = append(infra, "history oracle: unparsable result")
				continue
			}
			total += int(r.Stats["records"])
			for _, vv := range r.Violations {
				// the "plan" of such a finding is the history log itself; keep a copy
				keep := filepath.Join(cfg.replays, fmt.Sprintf("C06-history-%d.jsonl", seed))
				if b, err := os.ReadFile(log); err == nil {
					os.MkdirAll(cfg.replays, 0o755)
					os.WriteFile(keep, b, 0o644)
				}
				vv.Detail += "\n  history log: " + keep
				fails = append(fails, failure{job: job, run: uint64(i), viol: vv, replayPath: keep})
			}
		}
	}
	st["runs_logged"] = runs
	st["records_reevaluated"] = total
	st["fresh_processes"] = shuffles
	return fails, infra, st
}

func histBudget(cfg *config) time.Duration {
	if cfg.tier == "thorough" {
		return 20 * time.Minute
	}
	return 5 * time.Minute
}

// runBounded runs cmd to completion unless it exceeds the wall-clock budget or
// 3 GB resident; then it is killed and the reason returned.
func runBounded(cmd *exec.Cmd, budget time.Duration) (error, string) {
	if err := cmd.Start(); err != nil {
		return err, ""
	}
	done := make(chan error, 1)
	go func() { done <- cmd.Wait() }()
	deadline := time.After(budget)
	tick := time.NewTicker(time.Second)
	defer tick.Stop()
	for {
		select {
		case err := <-done:
			return err, ""
		case <-deadline:
			cmd.Process.Kill()
			<-done
			return nil, fmt.Sprintf("stopped after %v", budget)
		case <-tick.C:
			if rss := rssMB(cmd.Process.Pid); rss > 3072 {
				cmd.Process.Kill()
				<-done
				return nil, fmt.Sprintf("stopped at %d MB resident", rss)
			}
		}
	}
}
