package driver

// historyOracle is filled in with the register machine (see history_impl).
func historyOracle(cfg *config) ([]failure, []string, map[string]interface{}) {
	return nil, nil, map[string]interface{}{"status": "not built yet"}
}
