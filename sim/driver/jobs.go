package driver

import (
	"fmt"

	"apdsim/plan"
)

// jobsFor lays out the batches of a check. Run counts are fixed per tier (so
// that what is explored is a function of VERIF_SEED only); CapSec is a
// wall-clock safety cap per batch.
func jobsFor(cfg *config) []*Job {
	var jobs []*Job
	n := func(x uint64) uint64 {
		v := uint64(float64(x) * cfg.scale)
		if v < 1 {
			v = 1
		}
		return v
	}
	thorough := cfg.tier == "thorough"
	sub := func(k uint64) uint64 { return plan.Derive(cfg.seed, k, 77) }
	add := func(name, variant string, race bool, wl, mode string, runs uint64, capSec int, k uint64) {
		v := cfg.variant(variant)
		if v.Label != variant {
			return // build variant not available in this invocation
		}
		jobs = append(jobs, &Job{Name: name, Variant: v, Race: race, WL: wl, Mode: mode, Runs: n(runs), Seed: sub(k), CapSec: capSec})
	}
	switch cfg.prop {
	case "C18":
		if thorough {
			add("c18-race-t128", "t128", true, "c18", "", 50000, 1500, 1)
			add("c18-race-t2", "t2", true, "c18", "", 20000, 400, 2)
			add("c18-race-t16", "t16", true, "c18", "", 20000, 400, 3)
			add("c18-value-t128", "t128", false, "c18", "", 120000, 400, 4)
			add("c18-sync-focus-value", "t128", false, "c18", "sync", 40000, 400, 7)
			add("c18-sync-focus-race", "t128", true, "c18", "sync", 4000, 400, 8)
			add("c18-sync-focus-cold", "t128", false, "c18", "coldsync", 30000, 400, 9)
			jobs[len(jobs)-1].PerProc = 1
			add("c18-race-cold-t128", "t128", true, "c18", "cold", 6000, 400, 5)
			add("c18-race-cold-t2", "t2", true, "c18", "cold", 3000, 300, 6)
			jobs[len(jobs)-1].PerProc = 2
			jobs[len(jobs)-2].PerProc = 2
			add("c18-first-use", "t128", true, "c18", "coldherd", 8000, 400, 10)
			jobs[len(jobs)-1].PerProc = 1
		} else {
			add("c18-race-t128", "t128", true, "c18", "", 5000, 120, 1)
			add("c18-race-t2", "t2", true, "c18", "", 1500, 60, 2)
			add("c18-value-t128", "t128", false, "c18", "", 8000, 60, 4)
			add("c18-sync-focus-value", "t128", false, "c18", "sync", 2000, 60, 7)
			add("c18-sync-focus-cold", "t128", false, "c18", "coldsync", 1600, 60, 9)
			jobs[len(jobs)-1].PerProc = 1
			add("c18-race-cold-t128", "t128", true, "c18", "cold", 400, 60, 5)
			add("c18-race-cold-t2", "t2", true, "c18", "cold", 300, 60, 6)
			jobs[len(jobs)-1].PerProc = 2
			jobs[len(jobs)-2].PerProc = 2
			add("c18-first-use", "t128", true, "c18", "coldherd", 500, 60, 10)
			jobs[len(jobs)-1].PerProc = 1
		}
	case "C06":
		if thorough {
			add("c06-prior-state-t128", "t128", false, "reg", "c06", 110000, 1500, 1)
			add("c06-prior-state-t16", "t16", false, "reg", "c06", 50000, 800, 2)
			add("c06-prior-state-t2", "t2", false, "reg", "c06", 70000, 800, 3)
			add("c06-combined-t128", "t128", false, "reg", "both", 180000, 1200, 4)
			add("c06-combined-t2", "t2", false, "reg", "both", 60000, 300, 5)
		} else {
			add("c06-prior-state-t128", "t128", false, "reg", "c06", 6000, 120, 1)
			add("c06-prior-state-t16", "t16", false, "reg", "c06", 3000, 60, 2)
			add("c06-combined-t128", "t128", false, "reg", "both", 5000, 60, 4)
		}
	case "C05":
		if thorough {
			add("c05-alias-t128", "t128", false, "reg", "c05", 150000, 1500, 1)
			add("c05-alias-t16", "t16", false, "reg", "c05", 60000, 800, 2)
			add("c05-alias-t2", "t2", false, "reg", "c05", 60000, 800, 3)
			add("c05-combined-t128", "t128", false, "reg", "both", 150000, 1200, 5)
			add("c05-bigint-alias", "t128", false, "big", "alias", 600000, 600, 4)
		} else {
			add("c05-alias-t128", "t128", false, "reg", "c05", 10000, 120, 1)
			add("c05-alias-t16", "t16", false, "reg", "c05", 3000, 60, 2)
			add("c05-combined-t128", "t128", false, "reg", "both", 4000, 60, 5)
			add("c05-bigint-alias", "t128", false, "big", "alias", 30000, 60, 4)
		}
	case "C16":
		if thorough {
			add("c16-machine", "t128", false, "big", "", 1000000, 1800, 1)
			add("c16-faults", "t128", false, "big", "faults", 400000, 900, 2)
		} else {
			add("c16-machine", "t128", false, "big", "", 80000, 120, 1)
			add("c16-faults", "t128", false, "big", "faults", 20000, 60, 2)
		}
	case "C03":
		if thorough {
			add("c03-trap-pairs-t128", "t128", false, "trap", "", 800000, 1200, 1)
			add("c03-trap-pairs-t16", "t16", false, "trap", "", 200000, 400, 2)
			add("c03-trap-pairs-t2", "t2", false, "trap", "", 200000, 400, 4)
			add("c03-errdecimal-latch", "t128", false, "latch", "", 1000000, 600, 3)
		} else {
			add("c03-trap-pairs-t128", "t128", false, "trap", "", 24000, 120, 1)
			add("c03-trap-pairs-t16", "t16", false, "trap", "", 6000, 60, 2)
			add("c03-errdecimal-latch", "t128", false, "latch", "", 30000, 60, 3)
		}
	default:
		fmt.Println("unknown property", cfg.prop)
	}
	return jobs
}
