package driver

import (
	"fmt"

	"apdsim/plan"
)

// jobsFor lays out the batches of a check. Run counts are fixed per tier (so
// that what is explored is a function of VERIF_SEED only); CapSec is a
// wall-clock safety cap per batch.
func jobsFor(cfg *config) []*Job {
	var jobs []*Job
	n := func(x uint64) uint64 {
		v := uint64(float64(x) * cfg.scale)
		if v < 1 {
			v = 1
		}
		return v
	}
	thorough := cfg.tier == "thorough"
	sub := func(k uint64) uint64 { return plan.Derive(cfg.seed, k, 77) }
	add := func(name, variant string, race bool, wl, mode string, runs uint64, capSec int, k uint64) {
		v := cfg.variant(variant)
		if v.Label != variant {
			return // build variant not available in this invocation
		}
		jobs = append(jobs, &Job{Name: name, Variant: v, Race: race, WL: wl, Mode: mode, Runs: n(runs), Seed: sub(k), CapSec: capSec})
	}
	switch cfg.prop {
	case "C18":
		if thorough {
			add("c18-race-t128", "t128", true, "c18", "", 24000, 600, 1)
			add("c18-race-t2", "t2", true, "c18", "", 8000, 300, 2)
			add("c18-race-t16", "t16", true, "c18", "", 8000, 300, 3)
			add("c18-value-t128", "t128", false, "c18", "", 40000, 300, 4)
		} else {
			add("c18-race-t128", "t128", true, "c18", "", 1400, 90, 1)
			add("c18-race-t2", "t2", true, "c18", "", 500, 60, 2)
			add("c18-value-t128", "t128", false, "c18", "", 1600, 60, 4)
		}
	case "C06":
		if thorough {
			add("c06-prior-state-t128", "t128", false, "reg", "c06", 60000, 600, 1)
			add("c06-prior-state-t16", "t16", false, "reg", "c06", 20000, 300, 2)
			add("c06-prior-state-t2", "t2", false, "reg", "c06", 20000, 300, 3)
			add("c06-combined-t128", "t128", false, "reg", "both", 20000, 300, 4)
		} else {
			add("c06-prior-state-t128", "t128", false, "reg", "c06", 2400, 90, 1)
			add("c06-prior-state-t16", "t16", false, "reg", "c06", 800, 60, 2)
		}
	case "C05":
		if thorough {
			add("c05-alias-t128", "t128", false, "reg", "c05", 60000, 600, 1)
			add("c05-alias-t16", "t16", false, "reg", "c05", 20000, 300, 2)
			add("c05-alias-t2", "t2", false, "reg", "c05", 20000, 300, 3)
			add("c05-bigint-alias", "t128", false, "big", "alias", 60000, 300, 4)
		} else {
			add("c05-alias-t128", "t128", false, "reg", "c05", 2400, 90, 1)
			add("c05-alias-t16", "t16", false, "reg", "c05", 800, 60, 2)
			add("c05-bigint-alias", "t128", false, "big", "alias", 3000, 60, 4)
		}
	case "C16":
		if thorough {
			add("c16-machine", "t128", false, "big", "", 400000, 900, 1)
			add("c16-faults", "t128", false, "big", "faults", 100000, 300, 2)
		} else {
			add("c16-machine", "t128", false, "big", "", 16000, 90, 1)
			add("c16-faults", "t128", false, "big", "faults", 4000, 60, 2)
		}
	case "C03":
		if thorough {
			add("c03-trap-pairs-t128", "t128", false, "trap", "", 80000, 900, 1)
			add("c03-trap-pairs-t16", "t16", false, "trap", "", 20000, 300, 2)
			add("c03-errdecimal-latch", "t128", false, "latch", "", 60000, 600, 3)
		} else {
			add("c03-trap-pairs-t128", "t128", false, "trap", "", 2400, 90, 1)
			add("c03-trap-pairs-t16", "t16", false, "trap", "", 600, 60, 2)
			add("c03-errdecimal-latch", "t128", false, "latch", "", 2400, 60, 3)
		}
	default:
		fmt.Println("unknown property", cfg.prop)
	}
	return jobs
}
