package driver

import (
	"fmt"
	"sync"
	"time"

	"apdsim/plan"
)

// minimise shrinks a failing plan by delta debugging while the same violation
// (class and key) recurs. Every candidate is executed in a fresh worker process
// of the build that found it; for the concurrent workload a candidate is
// accepted only if it fails in two consecutive executions. Budget: 300
// candidates or 120 s.
func minimise(cfg *config, job *Job, p *plan.Plan, v plan.Violation, budget time.Duration, prelude []plan.Ref) (*plan.Plan, plan.Violation) {
	deadline := time.Now().Add(budget)
	tried := 0
	best := p.Clone()
	bestV := v
	repeats := 1
	if p.Workload == "c18" {
		repeats = 2
	}
	test := func(c *plan.Plan) bool {
		if tried >= 300 || time.Now().After(deadline) {
			return false
		}
		tried++
		var got plan.Violation
		for i := 0; i < repeats; i++ {
			viols, _, infra := execPlan(cfg, job.Variant, job.Race, c, fmt.Sprintf("%d-%d", job.Seed%1000, p.Run))
			if infra != "" {
				return false
			}
			g, ok := hasClass(viols, v.Class, v.Key)
			if !ok {
				return false
			}
			got = g
		}
		best = c.Clone()
		bestV = got
		return true
	}
	// testMany evaluates candidates concurrently (fresh processes) and adopts
	// the first one, in order, that still fails the same way.
	var mu sync.Mutex
	testMany := func(cs []*plan.Plan) int {
		if len(cs) == 0 {
			return -1
		}
		type res struct {
			ok  bool
			got plan.Violation
		}
		out := make([]res, len(cs))
		var wg sync.WaitGroup
		sem := make(chan struct{}, 8)
		for i := range cs {
			mu.Lock()
			stop := tried >= 600 || time.Now().After(deadline)
			tried++
			mu.Unlock()
			if stop {
				break
			}
			wg.Add(1)
			sem <- struct{}{}
			go func(i int) {
				defer wg.Done()
				defer func() { <-sem }()
				var got plan.Violation
				for r := 0; r < repeats; r++ {
					viols, _, infra := execPlan(cfg, job.Variant, job.Race, cs[i], fmt.Sprintf("%d-%d-%d", job.Seed%1000, p.Run, i))
					if infra != "" {
						return
					}
					g, ok := hasClass(viols, v.Class, v.Key)
					if !ok {
						return
					}
					got = g
				}
				out[i] = res{true, got}
			}(i)
		}
		wg.Wait()
		for i := range out {
			if out[i].ok {
				best = cs[i].Clone()
				bestV = out[i].got
				return i
			}
		}
		return -1
	}
	_ = testMany
	// Does the plan alone reproduce the failure in a fresh process? If the
	// tree under test keeps state across calls it may not; then the runs its
	// worker process executed before it become part of the replay, and are
	// themselves minimised first.
	if !test(best.Clone()) {
		if len(prelude) == 0 {
			return p, v
		}
		withAll := p.Clone()
		withAll.Prelude = prelude
		if !test(withAll) {
			// keep the complete history: still the exact sequence that failed
			return withAll, v
		}
		ddmin(len(best.Prelude), func(keep []bool) bool {
			c := best.Clone()
			c.Prelude = nil
			for i, k := range keep {
				if k {
					c.Prelude = append(c.Prelude, best.Prelude[i])
				}
			}
			return test(c)
		})
	}
	parallelTest = testMany
	defer func() { parallelTest = nil }()
	switch p.Workload {
	case "c18":
		shrinkC18(best, test, func() *plan.Plan { return best })
	case "big":
		ddmin(len(best.BigSteps), func(keep []bool) bool {
			c := best.Clone()
			c.BigSteps = c.BigSteps[:0]
			for i, k := range keep {
				if k {
					c.BigSteps = append(c.BigSteps, best.BigSteps[i])
				}
			}
			return test(c)
		})
	default:
		if len(best.Tasks) == 1 {
			shrinkSteps(0, test, func() *plan.Plan { return best })
			// drop poison, shrink trap sets bit by bit
			for i := range best.Tasks[0].Steps {
				if best.Tasks[0].Steps[i].Poison != "" {
					c := best.Clone()
					c.Tasks[0].Steps[i].Poison = ""
					test(c)
				}
				if i < len(best.Tasks[0].Steps) && best.Tasks[0].Steps[i].Traps != nil {
					for b := uint32(1); b < 1<<12; b <<= 1 {
						if i < len(best.Tasks[0].Steps) && best.Tasks[0].Steps[i].Traps != nil && *best.Tasks[0].Steps[i].Traps&b != 0 {
							c := best.Clone()
							t := *c.Tasks[0].Steps[i].Traps &^ b
							c.Tasks[0].Steps[i].Traps = &t
							test(c)
						}
					}
				}
			}
			for ci := range best.Contexts {
				for b := uint32(1); b < 1<<12; b <<= 1 {
					if best.Contexts[ci].Traps&b != 0 {
						c := best.Clone()
						c.Contexts[ci].Traps &^= b
						test(c)
					}
				}
			}
		}
	}
	return best, bestV
}

// ddmin removes chunks of decreasing size; try(keep) reports whether the
// reduced candidate still fails (and, if so, has been adopted as the new
// baseline, so indices are re-based by the caller through keep masks over the
// current baseline).
func ddmin(n int, try func(keep []bool) bool) {
	for chunk := (n + 1) / 2; chunk >= 1 && n > 0; {
		removedAny := false
		for start := 0; start < n; {
			end := start + chunk
			if end > n {
				end = n
			}
			keep := make([]bool, n)
			for i := range keep {
				keep[i] = i < start || i >= end
			}
			if try(keep) {
				n -= end - start
				removedAny = true
				// same start now names the following chunk
			} else {
				start = end
			}
		}
		if chunk == 1 && !removedAny {
			break
		}
		if chunk == 1 {
			continue
		}
		chunk = (chunk + 1) / 2
		if chunk < 1 {
			chunk = 1
		}
	}
}

func shrinkSteps(task int, test func(*plan.Plan) bool, cur func() *plan.Plan) {
	build := func(keep []bool) *plan.Plan {
		b := cur()
		c := b.Clone()
		c.Tasks[task].Steps = c.Tasks[task].Steps[:0]
		for i, k := range keep {
			if k {
				c.Tasks[task].Steps = append(c.Tasks[task].Steps, b.Tasks[task].Steps[i])
			}
		}
		return c
	}
	if parallelTest == nil {
		ddmin(len(cur().Tasks[task].Steps), func(keep []bool) bool { return test(build(keep)) })
		return
	}
	// parallel variant: all chunk removals of one granularity are tried at once
	n := len(cur().Tasks[task].Steps)
	for chunk := (n + 1) / 2; chunk >= 1 && n > 0; {
		var cands []*plan.Plan
		var sizes []int
		for start := 0; start < n; start += chunk {
			end := start + chunk
			if end > n {
				end = n
			}
			keep := make([]bool, n)
			for i := range keep {
				keep[i] = i < start || i >= end
			}
			cands = append(cands, build(keep))
			sizes = append(sizes, end-start)
		}
		if i := parallelTest(cands); i >= 0 {
			n -= sizes[i]
			if chunk > n && n > 0 {
				chunk = n
			}
			continue
		}
		if chunk == 1 {
			break
		}
		chunk = (chunk + 1) / 2
	}
}

// parallelTest is installed by minimise for the duration of one minimisation.
var parallelTest func([]*plan.Plan) int

func shrinkC18(_ *plan.Plan, test func(*plan.Plan) bool, cur func() *plan.Plan) {
	// 1. is the schedule needed at all? (a data race is reported whatever the
	// interleaving; a value-level interference usually needs it)
	scheduleFree := false
	if b := cur(); b.Schedule != nil && len(b.Schedule.Preempt) > 0 {
		c := b.Clone()
		c.Schedule.Preempt = nil
		scheduleFree = test(c)
	} else {
		scheduleFree = true
	}
	// 2. drop tasks
	for t := len(cur().Tasks) - 1; t >= 0 && len(cur().Tasks) > 1; t-- {
		b := cur()
		if t >= len(b.Tasks) {
			continue
		}
		c := b.Clone()
		c.Tasks = append(c.Tasks[:t], c.Tasks[t+1:]...)
		if c.Schedule != nil {
			var ps []plan.Preempt
			for _, pr := range c.Schedule.Preempt {
				if pr.Task == t || pr.To == t {
					continue
				}
				if pr.Task > t {
					pr.Task--
				}
				if pr.To > t {
					pr.To--
				}
				ps = append(ps, pr)
			}
			c.Schedule.Preempt = ps
			if c.Schedule.First == t {
				c.Schedule.First = 0
			} else if c.Schedule.First > t {
				c.Schedule.First--
			}
		}
		test(c)
	}
	if scheduleFree {
		// 3a. steps can be dropped freely
		for t := range cur().Tasks {
			shrinkSteps(t, test, cur)
		}
	} else {
		// 3b. drop preemptions, then trailing steps (which do not shift the
		// local step indices the remaining preemptions are aimed at)
		ddmin(len(cur().Schedule.Preempt), func(keep []bool) bool {
			b := cur()
			c := b.Clone()
			c.Schedule.Preempt = nil
			for i, k := range keep {
				if k {
					c.Schedule.Preempt = append(c.Schedule.Preempt, b.Schedule.Preempt[i])
				}
			}
			return test(c)
		})
		for t := range cur().Tasks {
			for len(cur().Tasks[t].Steps) > 1 {
				b := cur()
				c := b.Clone()
				n := len(c.Tasks[t].Steps)
				cut := n / 2
				if cut < 1 {
					cut = 1
				}
				c.Tasks[t].Steps = c.Tasks[t].Steps[:n-cut]
				if !test(c) {
					if cut == 1 {
						break
					}
					c = b.Clone()
					c.Tasks[t].Steps = c.Tasks[t].Steps[:n-1]
					if !test(c) {
						break
					}
				}
			}
		}
	}
	// 4. registers and shared operands that no remaining step mentions stay as
	// they are: references are positional.
}
