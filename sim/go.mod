module apdsim

go 1.23

require github.com/cockroachdb/apd/v3 v3.2.1

replace github.com/cockroachdb/apd/v3 => ../apd
