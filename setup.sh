#!/bin/bash
# setup.sh — run once after a fresh restore, offline. Builds the instrumenter
# and warms the Go build cache (standard library with and without -race, and
# the simulator itself) so that the first check does not pay for it.
set -u
export GOFLAGS=-mod=mod GOPROXY=off GOSUMDB=off GOTOOLCHAIN=local
HERE=$(cd "$(dirname "$0")" && pwd)
cd "$HERE" || exit 1
mkdir -p evidence replays
S=$(mktemp -d "${VERIF_SCRATCH:-/var/tmp}/apdsim-setup.XXXXXX") || exit 1
trap 'rm -rf "$S"' EXIT
./mkscratch.sh "$S/t128" "" both || { cat "$S"/t128/*.log 2>/dev/null; echo "setup: build failed"; exit 1; }
echo "setup: ok ($(go version))"
