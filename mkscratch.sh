#!/bin/bash
# mkscratch.sh <dir> [knobs] — build an instrumented scratch copy of /repo's
# working tree plus the simulator sources in <dir>, and compile the simulator
# (plain and -race) against it. Exit 2 on any build trouble.
set -u
export GOFLAGS=-mod=mod GOPROXY=off GOSUMDB=off GOTOOLCHAIN=local
REPO=${VERIF_REPO:-/repo}
HERE=$(cd "$(dirname "$0")" && pwd)
S=$1
KNOBS=${2:-}
RACE=${3:-both}
mkdir -p "$S" || exit 2
rm -rf "$S/apd" "$S/sim"
mkdir -p "$S/apd" "$S/bin"
# the working tree, not HEAD: sources may have been edited before the check runs
(cd "$REPO" && tar --exclude=.git -cf - .) | tar -xf - -C "$S/apd" || exit 2
# the generated helpers use generics: the copy's language version must allow them
sed -i -E 's/^go 1\.(1[0-7]|[0-9])$/go 1.18/' "$S/apd/go.mod" 2>/dev/null
cp -a "$HERE/sim" "$S/sim" || exit 2
cp "$REPO/go.sum" "$S/sim/go.sum" 2>/dev/null
cd "$S/sim" || exit 2
go build -o "$S/bin/instr" ./cmd/instr 2>"$S/build.log" || { cat "$S/build.log"; echo "BUILD-ERROR instr"; exit 2; }
INSTR="$S/bin/instr"
"$INSTR" -dir "$S/apd" -knobs "$KNOBS" >"$S/instr.log" 2>&1 || { cat "$S/instr.log"; echo "BUILD-ERROR instrumentation"; exit 2; }
pids=()
if [ "$RACE" != race ]; then
  ( go build -tags verif -o "$S/bin/apdsim" ./cmd/apdsim >"$S/build-plain.log" 2>&1 ) & pids+=($!)
fi
if [ "$RACE" != plain ]; then
  ( go build -race -tags verif -o "$S/bin/apdsim-race" ./cmd/apdsim >"$S/build-race.log" 2>&1 ) & pids+=($!)
fi
rc=0
for p in "${pids[@]}"; do wait $p || rc=2; done
if [ $rc != 0 ]; then cat "$S"/build-*.log; echo "BUILD-ERROR simulator against instrumented tree"; exit 2; fi
exit 0
