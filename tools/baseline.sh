#!/bin/bash
# baseline.sh — run the repository's own suite (guard off: nothing of the
# simulator is in /repo) and print the number of passing and failing tests.
# Expected on the pinned tree and after every fix: commit: 23785 passed, 2 failed
# (TestFormatFlags/%-010G and its parent always fail on the pinned tree).
export GOFLAGS=-mod=mod GOPROXY=off GOSUMDB=off GOTOOLCHAIN=local
cd "${1:-/repo}" || exit 2
go test -json -vet=off -count=1 -timeout 25m ./... 2>/dev/null | python3 -c '
import sys, json
p = f = 0
failed = []
for l in sys.stdin:
    try: e = json.loads(l)
    except Exception: continue
    if e.get("Test") is None: continue
    if e.get("Action") == "pass": p += 1
    elif e.get("Action") == "fail": f += 1; failed.append(e["Test"])
print("passed=%d failed=%d %s" % (p, f, sorted(failed)))
'
