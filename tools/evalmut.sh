#!/bin/bash
# evalmut.sh <outdir> <i> <prop> [extra props...] — confirm a candidate seeded change
# (m<i>.diff + m<i>_demo_test.go in <outdir>): it applies, builds, keeps the
# suite at baseline, its demo fails with it and passes without it; then run the
# quick check(s) of the given properties against it. Prints one summary line per step.
set -u
export GOFLAGS=-mod=mod GOPROXY=off GOSUMDB=off GOTOOLCHAIN=local
HERE=$(cd "$(dirname "$0")/.." && pwd)
OUT=$1; I=$2; shift 2
T=$(mktemp -d /var/tmp/evalmut.XXXXXX); trap 'rm -rf "$T"' EXIT
mkdir -p "$T/mut" "$T/clean" "$T/out"
(cd /repo && tar --exclude=.git -cf - .) | tar -xf - -C "$T/mut"
(cd /repo && tar --exclude=.git -cf - .) | tar -xf - -C "$T/clean"
(cd "$T/mut" && patch -p1 -s < "$OUT/m$I.diff") || { echo "m$I: APPLY-FAIL"; exit 1; }
(cd "$T/mut" && go build ./... ) || { echo "m$I: BUILD-FAIL"; exit 1; }
echo "m$I suite(with change): $($HERE/tools/baseline.sh $T/mut)"
tests=$(grep -o '^func Test[A-Za-z0-9_]*' "$OUT/m${I}_demo_test.go" | sed 's/func //' | paste -sd'|')
RACE=""; grep -qi -- '-race' "$OUT/m$I.md" && RACE="-race"
cp "$OUT/m${I}_demo_test.go" "$T/mut/zz_demo_test.go"; cp "$OUT/m${I}_demo_test.go" "$T/clean/zz_demo_test.go"
(cd "$T/mut" && go test $RACE -vet=off -count=1 -run "^($tests)\$" . >"$T/out/demo-mut.log" 2>&1); echo "m$I demo with change ($RACE): exit $? (want non-zero)"
(cd "$T/clean" && go test $RACE -vet=off -count=1 -run "^($tests)\$" . >"$T/out/demo-clean.log" 2>&1); echo "m$I demo on clean tree ($RACE): exit $? (want 0)"
rm -f "$T/mut/zz_demo_test.go"
for P in "$@"; do
  VERIF_REPO="$T/mut" VERIF_EVIDENCE_DIR="$T/out" VERIF_REPLAY_DIR="$T/out/replays" "$HERE/check" "$P" quick > "$T/out/check-$P.log" 2>&1
  rc=$?
  echo "m$I check $P: exit $rc $(grep -m4 '^  class=' "$T/out/check-$P.log" | sed 's/ first:.*//' | tr '\n' ';') $(grep -m2 -E '^(INFRASTRUCTURE|NOTE)' "$T/out/check-$P.log" | cut -c1-200 | tr '\n' ';')"
  if [ -n "${EVALMUT_KEEP:-}" ]; then mkdir -p "$EVALMUT_KEEP"; cp "$T/out/check-$P.log" "$EVALMUT_KEEP/m$I-check-$P.log"; cp -r "$T/out/replays" "$EVALMUT_KEEP/m$I-replays" 2>/dev/null; fi
done
