#!/bin/bash
# precommit.sh — every check's quick tier on the unchanged /repo must exit 0
# with no VIOLATION / INFRASTRUCTURE line, and MANIFEST + evidence must validate.
# Run before committing any change to sim/, check or mkscratch.sh.
HERE=$(cd "$(dirname "$0")/.." && pwd); cd "$HERE"
bad=0
for id in C18 C06 C05 C03 C16; do
  ./check $id quick > /tmp/precommit-$id.out 2>&1; rc=$?
  n=$(grep -c -E "^(VIOLATION|INFRASTRUCTURE|KNOWN-FINDING)" /tmp/precommit-$id.out)
  echo "$id exit=$rc flagged-lines=$n $(grep -E '^WARNING' /tmp/precommit-$id.out | head -1 | cut -c1-120)"
  [ $rc = 0 ] && [ "$n" = 0 ] || bad=1
done
./tools/validate.py >/tmp/precommit-validate.out 2>&1 || { bad=1; grep INVALID /tmp/precommit-validate.out; }
[ $bad = 0 ] && echo "precommit: ok" || echo "precommit: FAILED"
exit $bad
