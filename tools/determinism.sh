#!/bin/bash
# determinism.sh [seeds] [runs] — large-sample determinism proof of the simulator.
# For every workload and <seeds> different VERIF_SEED-derived seeds, the runs
# 0..<runs>-1 are executed in separate processes: twice with GOMAXPROCS=1, and
# once each with GOMAXPROCS=4 and 16 (the worker pins itself to 1), for C18 with
# the race build and the plain build; the complete event logs (every context
# switch: task, local step, yield site, target; every result digest) must be
# byte-identical. Prints one line per workload and exits 1 on any difference.
set -u
export GOFLAGS=-mod=mod GOPROXY=off GOSUMDB=off GOTOOLCHAIN=local
HERE=$(cd "$(dirname "$0")/.." && pwd)
SEEDS=${1:-32}; RUNS=${2:-12}
S=$(mktemp -d /var/tmp/apddet.XXXXXX); trap 'rm -rf "$S"' EXIT
"$HERE/mkscratch.sh" "$S/b" "" both >/dev/null || { echo "build failed"; exit 2; }
B=$S/b/bin
export GORACE="halt_on_error=1 exitcode=66"
bad=0
run() { # bin gmp wl mode seed -> file
  GOMAXPROCS=$2 "$1" worker -wl "$3" -mode "$4" -seed "$5" -from 0 -to "$RUNS" -evlog 2>/dev/null | grep -v '^STATS\|^PAIRS' > "$6"
}
for spec in c18: reg:c06 reg:c05 reg:both trap: latch: big: big:alias big:faults; do
  wl=${spec%%:*}; mode=${spec##*:}
  ndiff=0; bytes=0
  for s in $(seq 1 "$SEEDS"); do
    seed=$((s * 7919 + 13))
    bins="$B/apdsim"; [ "$wl" = c18 ] && bins="$B/apdsim-race $B/apdsim"
    ref=""
    i=0
    for bin in $bins; do for g in 1 1 4 16; do
      i=$((i+1)); f="$S/out.$i"
      run "$bin" "$g" "$wl" "$mode" "$seed" "$f" &
    done; done
    wait
    for k in $(seq 2 $i); do cmp -s "$S/out.1" "$S/out.$k" || ndiff=$((ndiff+1)); done
    bytes=$((bytes + $(stat -c %s "$S/out.1")))
  done
  echo "determinism $wl/$mode: seeds=$SEEDS runs/seed=$RUNS executions/seed=$i log-bytes=$bytes differing-executions=$ndiff"
  [ $ndiff = 0 ] || bad=1
done
# cold C18 runs need a fresh process each
ndiff=0
for s in $(seq 1 "$SEEDS"); do seed=$((s * 104729 + 7)); 
  for k in 1 2 3 4; do g=1; [ $k = 3 ] && g=4; [ $k = 4 ] && g=16; GOMAXPROCS=$g "$B/apdsim-race" worker -wl c18 -mode cold -seed $seed -from 0 -to 1 -evlog 2>/dev/null | grep -v '^STATS\|^PAIRS' > "$S/c.$k" & done; wait
  for k in 2 3 4; do cmp -s "$S/c.1" "$S/c.$k" || ndiff=$((ndiff+1)); done
done
echo "determinism c18/cold: seeds=$SEEDS executions/seed=4 differing-executions=$ndiff"
[ $ndiff = 0 ] || bad=1
exit $bad
