#!/bin/bash
# evalneg.sh <diff> [props...] — a change that is meant to PRESERVE the properties:
# apply to a scratch copy of /repo, build, suite at baseline, then every listed
# check (default: all five) must exit 0. Prints one line per step.
set -u
export GOFLAGS=-mod=mod GOPROXY=off GOSUMDB=off GOTOOLCHAIN=local
HERE=$(cd "$(dirname "$0")/.." && pwd)
D=$1; shift
PROPS=${*:-C18 C06 C05 C16 C03}
T=$(mktemp -d /var/tmp/evalneg.XXXXXX); trap 'rm -rf "$T"' EXIT
mkdir -p "$T/tree" "$T/out"
(cd /repo && tar --exclude=.git -cf - .) | tar -xf - -C "$T/tree"
(cd "$T/tree" && patch -p1 -s < "$D") || { echo "$(basename $D): APPLY-FAIL"; exit 1; }
(cd "$T/tree" && go build ./...) || { echo "$(basename $D): BUILD-FAIL"; exit 1; }
echo "$(basename $D) suite: $($HERE/tools/baseline.sh $T/tree)"
for P in $PROPS; do
  VERIF_REPO="$T/tree" VERIF_EVIDENCE_DIR="$T/out" VERIF_REPLAY_DIR="$T/out/replays" "$HERE/check" "$P" quick > "$T/out/check-$P.log" 2>&1
  rc=$?
  echo "$(basename $D) check $P: exit $rc (want 0) $(grep -m3 -E '^(  class=|INFRASTRUCTURE)' "$T/out/check-$P.log" | cut -c1-220 | tr '\n' ';')"
  if [ $rc != 0 ] && [ -n "${EVALNEG_KEEP:-}" ]; then mkdir -p "$EVALNEG_KEEP"; cp "$T/out/check-$P.log" "$EVALNEG_KEEP/$(basename $D)-$P.log"; fi
done
