#!/bin/bash
# selftest.sh [pattern] — sensitivity and negative-control self-test of the checks.
# Every selftest/S*.diff breaks one claimed property and must be reported
# (exit 1) by that property's quick check; every selftest/N*.diff is a
# semantics-preserving refactoring (correctly locked cache, sync.Once) and must
# stay silent (exit 0) under the checks named in its file name or, for N*, under
# C18 and C06. Also runs every seeded/<id>/patch.diff against the check of the
# property recorded in its meta.json. Nothing is written to /repo or to
# /verif/evidence; scratch copies are removed.
set -u
HERE=$(cd "$(dirname "$0")/.." && pwd)
PAT=${1:-}
TMP=$(mktemp -d /var/tmp/apdselftest.XXXXXX)
trap 'rm -rf "$TMP"' EXIT
fail=0
run_one() { # name diff prop expect
  local name=$1 diff=$2 prop=$3 expect=$4
  rm -rf "$TMP/tree"; mkdir -p "$TMP/tree" "$TMP/out"
  (cd /repo && tar --exclude=.git -cf - .) | tar -xf - -C "$TMP/tree"
  if ! (cd "$TMP/tree" && patch -p1 -s < "$diff"); then echo "SELFTEST $name: patch does not apply"; fail=1; return; fi
  VERIF_REPO="$TMP/tree" VERIF_EVIDENCE_DIR="$TMP/out" VERIF_REPLAY_DIR="$TMP/out/replays" VERIF_SCALE=${SELFTEST_SCALE:-0.5} "$HERE/check" "$prop" quick > "$TMP/out/$name-$prop.log" 2>&1
  local rc=$?
  local cls=$(grep -m3 '^  class=' "$TMP/out/$name-$prop.log" | sed 's/ failing-runs.*//' | tr '\n' ';')
  if [ "$rc" = "$expect" ]; then echo "SELFTEST ok   $name under $prop: exit $rc (expected $expect) $cls"; else echo "SELFTEST FAIL $name under $prop: exit $rc (expected $expect)"; grep -E '^(VIOLATION|INFRASTRUCTURE|BUILD)' "$TMP/out/$name-$prop.log" | head -5; fail=1; fi
}
for d in "$HERE"/selftest/*.diff; do
  n=$(basename "$d" .diff)
  case "$n" in *"$PAT"*) ;; *) continue;; esac
  case "$n" in
    S*) p=$(echo "$n" | sed 's/^S[0-9]*-c\([0-9]*\)-.*/C\1/'); run_one "$n" "$d" "$p" 1;;
    N10*) run_one "$n" "$d" C16 0; run_one "$n" "$d" C05 0; run_one "$n" "$d" C18 0; run_one "$n" "$d" C06 0;;
    N*) run_one "$n" "$d" C18 0; run_one "$n" "$d" C06 0;;
  esac
done
for m in "$HERE"/seeded/*/meta.json; do
  [ -f "$m" ] || continue
  dir=$(dirname "$m"); n=$(basename "$dir")
  case "$n" in *"$PAT"*) ;; *) continue;; esac
  for p in $(python3 -c "import json,sys; print(' '.join(json.load(open('$m')).get('caught_by',[])))"); do run_one "seeded-$n" "$dir/patch.diff" "$p" 1; done
  for p in $(python3 -c "import json,sys; print(' '.join(json.load(open('$m')).get('must_be_silent_under',[])))"); do run_one "seeded-$n" "$dir/patch.diff" "$p" 0; done
done
exit $fail
