#!/usr/bin/env python3
"""recordseeded.py <agent-outdir> <id-prefix> <PROP|-> <evallog> <source-text> [history.json]

Turns the output directory of a sub-agent (m<i>.diff, m<i>_demo_test.go, m<i>.md
for breaking changes; n<i>.diff, n<i>.md for preserving ones) together with the
lines tools/evalmut.sh / tools/evalneg.sh printed for it into
/verif/seeded/<id-prefix>-<m|n><i>/{patch.diff,demo_test.go,README.md,meta.json}.
history.json (optional) maps "<m|n><i>" to {"history": "...", "extra_results": [...],
"caught_by": [...]} for changes that needed the machinery to be strengthened.
"""
import json, os, re, shutil, sys

out, prefix, prop, evallog, source = sys.argv[1:6]
hist = json.load(open(sys.argv[6])) if len(sys.argv) > 6 else {}
here = os.path.dirname(os.path.dirname(os.path.abspath(__file__)))
log = open(evallog).read().splitlines()

def first_para(md, n=700):
    t = " ".join(l.strip() for l in open(md).read().splitlines() if l.strip() and not l.startswith("#"))
    return t[:n]

for f in sorted(os.listdir(out)):
    m = re.fullmatch(r"([mn])(\d+)\.diff", f)
    if not m:
        continue
    kind, i = m.group(1), m.group(2)
    tag = kind + i
    dest = os.path.join(here, "seeded", f"{prefix}-{tag}")
    os.makedirs(dest, exist_ok=True)
    shutil.copy(os.path.join(out, f), os.path.join(dest, "patch.diff"))
    md = os.path.join(out, tag + ".md")
    if os.path.exists(md):
        shutil.copy(md, os.path.join(dest, "README.md"))
    h = hist.get(tag, {})
    if kind == "m":
        demo = os.path.join(out, f"{tag}_demo_test.go")
        if os.path.exists(demo):
            shutil.copy(demo, os.path.join(dest, "demo_test.go"))
        mine = [l for l in log if l.startswith(tag + " ")]
        suite = next((l.split(": ", 1)[1] for l in mine if "suite(with change)" in l), "")
        dw = next((l for l in mine if "demo with change" in l), "")
        dc = next((l for l in mine if "demo on clean tree" in l), "")
        ex = lambda l: int(re.search(r"exit (\d+)", l).group(1)) if re.search(r"exit (\d+)", l) else None
        flags = "-race" if "(-race)" in dw else ""
        results = []
        for l in mine:
            mm = re.match(rf"{tag} check (C\d+): exit (\d+)\s*(.*)", l)
            if mm:
                results.append({"property": mm.group(1), "quick_exit": int(mm.group(2)), "classes": mm.group(3).strip()})
        results += h.get("extra_results", [])
        caught = h.get("caught_by")
        if caught is None:
            caught = sorted({r["property"] for r in results if r["quick_exit"] == 1})
        breaks = prop
        if prop == "auto" and os.path.exists(md):
            first = open(md).readline()
            breaks = " ".join(re.findall(r"C\d+", first)) if first.startswith("BREAKS") else prop
        meta = {
            "id": f"{prefix}-{tag}", "breaks": breaks, "source": source,
            "needs_to_manifest": first_para(md) if os.path.exists(md) else "",
            "confirmed": {"suite_with_change": suite, "demo_with_change_exit": ex(dw), "demo_on_clean_tree_exit": ex(dc),
                          "demo_flags": flags, "how": "tools/evalmut.sh"},
            "check_results": results, "caught_by": caught,
        }
        if "history" in h:
            meta["history"] = h["history"]
        if "out_of_scope" in h:
            meta["out_of_scope"] = h["out_of_scope"]
    else:
        name = tag + ".diff"
        mine = [l for l in log if l.startswith(name + " ")]
        suite = next((l.split(": ", 1)[1] for l in mine if " suite:" in l), "")
        obs = []
        for l in mine:
            mm = re.match(rf"{re.escape(name)} check (C\d+): exit (\d+) \(want 0\)\s*(.*)", l)
            if mm:
                obs.append(f"{mm.group(1)} exit {mm.group(2)}" + (f" [{mm.group(3).strip()}]" if mm.group(3).strip() else ""))
        meta = {
            "id": f"{prefix}-{tag}", "breaks": None, "kind": "property-preserving change (negative control)", "source": source,
            "what": first_para(md) if os.path.exists(md) else "",
            "confirmed": {"suite_with_change": suite, "how": "tools/evalneg.sh"},
            "must_be_silent_under": ["C18", "C06", "C05", "C16", "C03"],
            "observed": h.get("history", "; ".join(obs)), "caught_by": [],
        }
    json.dump(meta, open(os.path.join(dest, "meta.json"), "w"), indent=1)
    print(dest, meta.get("caught_by"), meta.get("observed", ""))
